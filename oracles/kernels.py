"""Vectorised numpy statements of what the compiled kernels are documented to compute (comments of c/*.c, docstrings of the
Python callers, Gonze-Lee / Wang formulas of the documentation). They take the argument tuple exactly as the Python layer passes
it to `phonopy._phonopy.<kernel>` (recorded by vlib/recorder.py) and return ({argument position: expected array after the call},
relative tolerance[, natural scale of the output: deviations are measured against max(|expected|, natural scale), never against
an expected array that is rounding noise]).

None of them shares loop structure with the C code (no `done` flags, no address arithmetic, no in-place updates), so an indexing
slip, a missed/doubled visit, a race or an out-of-place write in the kernel shows up as a difference."""
import numpy as np

TWO_PI = 2 * np.pi


def _c(a):
    """complex view of a (..., 2)-less complex or double-view array"""
    a = np.asarray(a)
    return a if a.dtype.kind == "c" else a.reshape(-1).view("c16") if a.dtype == np.float64 else a


def phase_table(q, svecs, multi, sign=1.0):
    """P[k, i] = mean over the shortest vectors of pair (supercell atom k, primitive atom i) of exp(sign 2 pi i q.r)."""
    ns, npr = multi.shape[:2]
    ph = np.exp(sign * 1j * TWO_PI * (svecs @ np.asarray(q, dtype=float)))
    P = np.zeros((ns, npr), dtype=complex)
    for k in range(ns):
        for i in range(npr):
            m, a = int(multi[k, i, 0]), int(multi[k, i, 1])
            P[k, i] = ph[a:a + m].sum() / m
    return P


def dd_core(G_list, q_cart, qdir_cart, eps, pos, lam, tol):
    """sum_G KK(G+q) exp(2 pi i G.(r_i - r_j)) with KK = K K^T / (K eps K) exp(-K eps K / 4 Lambda^2) (C-type convention)."""
    K = G_list + np.asarray(q_cart)[None, :]
    norm = np.sqrt((K ** 2).sum(axis=1))
    diel = np.einsum("gi,ij,gj->g", K, eps, K)
    small = norm < tol
    safe = np.where(small, 1.0, diel)
    KK = K[:, :, None] * K[:, None, :] / safe[:, None, None] * np.exp(-safe / (4 * lam * lam))[:, None, None]
    if qdir_cart is None:
        KK[small] = 0
    else:
        n = np.asarray(qdir_cart, dtype=float)
        KK[small] = np.outer(n, n) / (n @ eps @ n)
    d = pos[:, None, :] - pos[None, :, :]
    phase = np.exp(1j * TWO_PI * np.einsum("gk,ijk->gij", G_list, d))
    return np.einsum("gab,gij->iajb", KK, phase)


def times_born(dd, born):
    return np.einsum("imjn,imk,jnl->ikjl", dd, born, born)


def ref_recip_dd_value(dd_q0, G_list, q_cart, qdir_cart, born, eps, pos, factor, lam, tol):
    dd = times_born(dd_core(G_list, q_cart, qdir_cart, eps, pos, lam, tol), born)
    for i in range(len(pos)):
        dd[i, :, i, :] -= dd_q0[i]
    return dd * factor


def ref_recip_dipole_dipole(args):
    dd, dd_q0, G_list, q_cart, q_dir, born, eps, pos, is_q_zero, factor, lam, tol = args[:12]
    npr = len(pos)
    want = ref_recip_dd_value(_c(dd_q0).reshape(npr, 3, 3), G_list, q_cart, None if is_q_zero else q_dir, born, eps, pos, factor, lam, tol)
    # natural scale: one reciprocal-lattice term with the charges at hand (all-zero Born charges leave rounding residues of the self term only)
    nat = abs(float(factor)) * max(float(np.abs(born).max()) ** 2, 1e-12) / max(float(np.linalg.eigvalsh((np.asarray(eps) + np.asarray(eps).T) / 2).min()), 1e-12)
    return {0: want.reshape(-1)}, 1e-9, nat


def ref_recip_dipole_dipole_q0(args):
    dd_q0, G_list, born, eps, pos, lam, tol = args[:7]
    dd = times_born(dd_core(G_list, np.zeros(3), None, eps, pos, lam, tol), born)
    s = dd.sum(axis=2)  # (i, alpha, beta)
    want = (s + s.conj().transpose(0, 2, 1)) / 2
    nat = max(float(np.abs(born).max()) ** 2, 1e-12) / max(float(np.linalg.eigvalsh((np.asarray(eps) + np.asarray(eps).T) / 2).min()), 1e-12)
    return {0: want.reshape(-1)}, 1e-9, nat


def dynmat_value(q, fc, svecs, multi, masses, s2p, p2s, charge=None):
    npr = len(p2s)
    P = phase_table(q, svecs, multi)
    D = np.zeros((npr, 3, npr, 3), dtype=complex)
    for i in range(npr):
        for j in range(npr):
            ks = np.nonzero(s2p == p2s[j])[0]
            blk = fc[p2s[i], ks]
            if charge is not None:
                blk = blk + charge[i, j][None]
            D[i, :, j, :] = np.einsum("kab,k->ab", blk, P[ks, i]) / np.sqrt(masses[i] * masses[j])
    D = D.reshape(3 * npr, 3 * npr)
    return (D + D.conj().T) / 2


def wang_charge(v, born, eps, nac_factor, N):
    qb = np.einsum("k,ikj->ij", v, born)
    return np.einsum("ia,jb->ijab", qb, qb) * (nac_factor / N / (v @ eps @ v))


def ref_dynamical_matrices(args, only=None):
    (dm, qpts, fc, svecs, multi, positions, masses, s2p, p2s, q_dir, born, eps, reclat, nac_factor, dd_q0, G_list, lam, is_nac,
     is_nac_q_zero, use_wang) = args
    npr, ns = len(p2s), len(s2p)
    N = ns // npr
    nq = len(np.asarray(qpts).reshape(-1, 3))
    # rows beyond the number of q-points (the caller may over-allocate) must be left as they were
    out = np.array(_c(dm).reshape(-1, 3 * npr, 3 * npr), copy=True)
    assert len(out) >= nq
    qdir_cart = reclat @ q_dir if (is_nac and not is_nac_q_zero) else None
    mm = np.sqrt(np.outer(masses, masses))
    for iq, q in enumerate(np.asarray(qpts).reshape(-1, 3)):
        if only is not None and iq not in only:
            continue
        charge = None
        qc = reclat @ q
        if is_nac and use_wang:
            v = qc if np.linalg.norm(qc) >= 1e-5 else qdir_cart
            if v is not None:
                charge = wang_charge(v, born, eps, nac_factor, N)
        D = dynmat_value(q, fc, svecs, multi, masses, s2p, p2s, charge)
        if is_nac and not use_wang:
            dd = ref_recip_dd_value(_c(dd_q0).reshape(npr, 3, 3), G_list, qc, qdir_cart, born, eps, positions, nac_factor, lam, 1e-5)
            D = D + (dd / mm[:, None, :, None]).reshape(3 * npr, 3 * npr)
        out[iq] = D
    return {0: out}, 1e-10, float(np.abs(fc).max() / masses.min())


def ref_derivative_dynmat(args):
    """Fourth-order central difference of the dynamical-matrix statement above with respect to Cartesian q."""
    (ddm, fc, q, lattice, reclat, svecs, multi, masses, s2p, p2s, nac_factor, born, eps, q_dir, is_nac, is_nac_q_zero, _omp) = args
    npr, ns = len(p2s), len(s2p)
    N = ns // npr
    qc0 = reclat @ q
    if is_nac and (not is_nac_q_zero or np.linalg.norm(qc0) < 0.05):
        return None  # limit direction fixed / too close to the non-analytic point for a difference quotient
    h = 3e-4

    def D(qc):
        qr = lattice.T @ qc
        charge = wang_charge(qc, born, eps, nac_factor, N) if is_nac else None
        return dynmat_value(qr, fc, svecs, multi, masses, s2p, p2s, charge)

    out = np.zeros((3, 3 * npr, 3 * npr), dtype=complex)
    for c in range(3):
        e = np.zeros(3)
        e[c] = h
        out[c] = (8 * (D(qc0 + e) - D(qc0 - e)) - (D(qc0 + 2 * e) - D(qc0 - 2 * e))) / (12 * h)
    rmax = float(np.sqrt(((svecs @ lattice.T) ** 2).sum(axis=1)).max())
    return {0: out}, 2e-6, TWO_PI * rmax * float(np.abs(fc).max() / masses.min())


def ref_transform_dynmat_to_fc(args):
    fc, dm, comm, svecs, multi, masses, s2pp, fc_index_map, _omp = args
    ns, npr = multi.shape[:2]
    N = ns // npr
    dmc = _c(dm).reshape(len(comm), npr, 3, npr, 3)
    out = np.zeros_like(fc)
    tables = [phase_table(q, svecs, multi, sign=-1.0) for q in comm]
    for i in range(npr):
        for j in range(ns):
            acc = np.zeros((3, 3))
            for k in range(len(comm)):
                acc += (dmc[k, i, :, s2pp[j], :] * tables[k][j, i]).real
            out[fc_index_map[i], j] = acc * np.sqrt(masses[i] * masses[s2pp[j]]) / N
    return {0: out}, 1e-10, float(np.abs(dmc).max() * masses.max())


# ------------------------------------------------------------------ symmetrisers

def _trans_diag_full(fc):
    out = fc.copy()
    n = fc.shape[0]
    for i in range(n):
        S = fc[i].sum(axis=0) - fc[i, i]
        out[i, i] = -(S + S.T) / 2
    return out


def ref_perm_trans_symmetrize_fc(args):
    fc, level = args
    x = np.array(fc, dtype=float, copy=True)
    for _ in range(level):
        x = x - x.mean(axis=0, keepdims=True)
        x = x - x.mean(axis=1, keepdims=True)
        x = (x + x.transpose(1, 0, 3, 2)) / 2
    return {0: _trans_diag_full(x)}, 1e-11, float(np.abs(fc).max())


def compact_transpose(fc, perms, s2pp, p2s, nsym_list):
    """T(fc)[i_p, j] = fc[s2pp[j], t_j(p2s[i_p])]^T where t_j is the pure translation sending j into the primitive cell."""
    npr, ns = fc.shape[:2]
    out = np.empty_like(fc)
    for ip in range(npr):
        i = p2s[ip]
        for j in range(ns):
            out[ip, j] = fc[s2pp[j], perms[nsym_list[j], i]].T
    return out


def ref_transpose_compact_fc(args):
    fc, perms, s2pp, p2s, nsym_list = args
    return {0: compact_transpose(fc, perms, s2pp, p2s, nsym_list)}, 0.0


def ref_perm_trans_symmetrize_compact_fc(args):
    fc, perms, s2pp, p2s, nsym_list, level = args
    x = np.array(fc, dtype=float, copy=True)
    for _ in range(level):
        for _n in range(2):
            x = compact_transpose(x, perms, s2pp, p2s, nsym_list)
            x = x - x.mean(axis=1, keepdims=True)
        x = (x + compact_transpose(x, perms, s2pp, p2s, nsym_list)) / 2
    out = x.copy()
    for ip in range(x.shape[0]):
        S = x[ip].sum(axis=0) - x[ip, p2s[ip]]
        out[ip, p2s[ip]] = -(S + S.T) / 2
    return {0: out}, 1e-11, float(np.abs(fc).max())


def ref_distribute_fc2(args):
    """Rows of atoms that are images of an already-known atom: fc[todo, j] += R^T fc[done, perm_R(j)] R (accumulating)."""
    fc2, atom_list, fc_indices, r_carts, perms, map_atoms, map_syms = args
    out = np.array(fc2, copy=True)
    pos_in_list = {int(a): k for k, a in enumerate(atom_list)}
    for i, todo in enumerate(atom_list):
        done = int(map_atoms[todo])
        if done == todo:
            continue
        R = r_carts[map_syms[todo]]
        p = perms[map_syms[todo]]
        blk = fc2[fc_indices[pos_in_list[done]], p]
        out[fc_indices[i]] += np.einsum("lj,nlm,mk->njk", R, blk, R)
    return {0: out}, 1e-12, float(np.abs(fc2).max())
