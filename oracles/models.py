"""Harmonic reference models, independent of phonopy's symmetry and
force-constant code (numpy + spglib's raw symmetry search only).

Conventions: lattice L has lattice vectors as ROWS (PhonopyAtoms.cell);
fractional x -> Cartesian x @ L.  Force constants fc[i, j, a, b].
"""
import itertools

import numpy as np
import spglib


def own_ops(cell, symprec=1e-5):
    """Space-group operations (rotations, translations) in the cell's own basis."""
    sym = spglib.get_symmetry((cell.cell, cell.scaled_positions, cell.numbers), symprec=symprec)
    return np.array(sym["rotations"]), np.array(sym["translations"])


def perms_for_ops(spos, L, rots, trans, tol=1e-4):
    """perm[k][i] = index of the atom onto which operation k maps atom i (brute force)."""
    n = len(spos)
    out = []
    for r, t in zip(rots, trans):
        y = spos @ r.T + t
        d = y[:, None, :] - spos[None, :, :]
        d -= np.rint(d)
        dist = np.linalg.norm(d @ L, axis=2)
        p = np.argmin(dist, axis=1)
        if not ((dist[np.arange(n), p] < tol).all() and len(set(p.tolist())) == n):
            raise ValueError("operation does not permute atoms")
        out.append(p)
    return np.array(out)


def own_magnetic_ops(cell, moments, symprec=1e-5):
    """Operations of the magnetic space group (with and without time reversal) selected from the raw space-group search by their
    action on the moments: collinear moments (scalars) are carried along unchanged by every rotation, non-collinear ones (Cartesian
    axial vectors) turn as det(R) R m; time reversal flips all of them. An operation stays when it maps the moment of every atom
    onto that of its image, or onto minus that of its image for all atoms at once."""
    rots, trans = own_ops(cell, symprec)
    m = np.asarray(moments, dtype=float)
    L = np.array(cell.cell, dtype=float)
    P = perms_for_ops(cell.scaled_positions, L, rots, trans)
    keep = []
    for k, (r, p) in enumerate(zip(rots, P)):
        if m.ndim == 1:
            tm = m
        else:
            Rc = cart_rot(L, r)
            tm = np.linalg.det(Rc) * (m @ Rc.T)
        img = m[p]
        scale = max(1e-12, float(np.abs(m).max()))
        if np.abs(img - tm).max() < 1e-6 * scale or np.abs(img + tm).max() < 1e-6 * scale:
            keep.append(k)
    return rots[keep], trans[keep]


def cart_rot(L, r):
    """Cartesian matrix of a rotation given in fractional coordinates of lattice L (rows)."""
    return L.T @ r @ np.linalg.inv(L).T


def group_average_fc(fc, L, rots, perms):
    acc = np.zeros_like(fc)
    for r, p in zip(rots, perms):
        Rc = cart_rot(L, r)
        acc += np.einsum("ka,ijkl,lb->ijab", Rc, fc[p][:, p], Rc)
    return acc / len(rots)


def dense_fc(scell, rng, asr=True, perm_sym=True, space_group=True, ops=None):
    """Random dense supercell force constants projected onto space group x
    index permutation x both sum rules (the projectors commute)."""
    L = scell.cell
    spos = scell.scaled_positions
    n = len(spos)
    fc = rng.normal(size=(n, n, 3, 3))
    nops = 1
    if space_group:
        rots, trans = own_ops(scell) if ops is None else ops
        if space_group == "translations":
            sel = [k for k in range(len(rots)) if np.array_equal(rots[k], np.eye(3, dtype=int))]
            rots, trans = rots[sel], trans[sel]
        P = perms_for_ops(spos, L, rots, trans)
        fc = group_average_fc(fc, L, rots, P)
        nops = len(rots)
    if perm_sym:
        fc = (fc + fc.transpose(1, 0, 3, 2)) / 2
    if asr:
        fc = fc - fc.mean(axis=0, keepdims=True)
        fc = fc - fc.mean(axis=1, keepdims=True)
    return fc, nops


def springs_fc(scell, rc=None, kl=5.0, kt=0.5):
    """Central + transverse pair springs with positive constants between ALL pairs of atoms (periodic images
    included) closer than rc: a stable, exactly periodic model carrying the full symmetry of the crystal.
    The image window is proven (|n_i| <= (rc + diameter) |column_i(L^-1)|), not a fixed 27-cell guess."""
    from oracles.lattice import coeff_bounds

    L = np.array(scell.cell, dtype=float)
    pos = scell.scaled_positions - np.floor(scell.scaled_positions)
    n = len(pos)
    if rc is None:
        from oracles.lattice import shortest_lattice_vector

        tmin = shortest_lattice_vector(L)
        dnn = np.inf
        if n > 1:
            b0 = coeff_bounds(L, tmin)
            sh0 = np.array(list(itertools.product(*[range(-b - 1, b + 2) for b in b0])))
            for i in range(n):
                d = (pos[None, :, :] - pos[i][None, None, :] + sh0[:, None, :]) @ L
                r = np.linalg.norm(d, axis=2)
                r[:, i] = np.inf
                dnn = min(dnn, r.min())
        else:
            dnn = tmin
        rc = max(0.45 * tmin, 1.3 * dnn)
    diam = np.linalg.norm(L, axis=1).sum()
    bb = coeff_bounds(L, rc + diam)
    shifts = np.array(list(itertools.product(*[range(-b, b + 1) for b in bb])))
    fc = np.zeros((n, n, 3, 3))
    for i in range(n):
        d = (pos[None, :, :] - pos[i][None, None, :] + shifts[:, None, :]) @ L
        r = np.linalg.norm(d, axis=2)
        for s_, j in zip(*np.nonzero((r > 1e-6) & (r < rc))):
            e = d[s_, j] / r[s_, j]
            K = kl / r[s_, j] ** 2 * np.outer(e, e) + kt / r[s_, j] ** 2 * (np.eye(3) - np.outer(e, e))
            fc[i, j] -= K
            fc[i, i] += K
    return fc


def sym_nac(pcell, rng):
    """Born charges / dielectric tensor obeying the space group of pcell, sum_j Z_j = 0."""
    L = pcell.cell
    spos = pcell.scaled_positions
    n = len(spos)
    rots, trans = own_ops(pcell)
    P = perms_for_ops(spos, L, rots, trans)
    Z = rng.normal(size=(n, 3, 3))
    acc = np.zeros_like(Z)
    for r, p in zip(rots, P):
        Rc = cart_rot(L, r)
        acc += np.einsum("ka,ikl,lb->iab", Rc, Z[p], Rc)
    Z = acc / len(rots)
    Z -= Z.mean(axis=0, keepdims=True)
    A = rng.normal(size=(3, 3))
    eps = A @ A.T + 2 * np.eye(3)
    acc = np.zeros((3, 3))
    for r in rots:
        Rc = cart_rot(L, r)
        acc += Rc.T @ eps @ Rc
    eps = acc / len(rots)
    return Z, eps


# ------------------------------------------------------------------ ifc model

class IFC:
    """Infinite-crystal force constants Phi(j, j', l) of finite range on a
    primitive cell (lattice rows Lp, fractional positions pos), index-permutation
    symmetric: Phi(j,j',l) = Phi(j',j,-l)^T (no sum rule imposed: the Fourier-sum
    identity does not need it)."""

    def __init__(self, Lp, pos, rng, lmax=1, rcut=None):
        self.Lp = np.array(Lp, dtype=float)
        self.pos = np.array(pos, dtype=float)
        n = len(pos)
        self.phi = {}
        for j in range(n):
            for jp in range(n):
                for l in itertools.product(range(-lmax, lmax + 1), repeat=3):
                    ml = tuple(-x for x in l)
                    if (jp, j, ml) in self.phi:
                        self.phi[j, jp, l] = self.phi[jp, j, ml].T.copy()
                        continue
                    dr = (self.pos[jp] + np.array(l) - self.pos[j]) @ self.Lp
                    if rcut is not None and np.linalg.norm(dr) > rcut:
                        continue
                    A = rng.normal(size=(3, 3))
                    if j == jp and l == (0, 0, 0):
                        A = (A + A.T) / 2
                    self.phi[j, jp, l] = A
        self.range = max((np.linalg.norm((self.pos[b] + np.array(l) - self.pos[a]) @ self.Lp)
                          for (a, b, l) in self.phi), default=0.0)

    def dynmat(self, q, masses):
        """D(jj',q) = (m_j m_j')^-1/2 sum_l Phi(j0,j'l) exp(2 pi i q.[r(j'l)-r(j0)])."""
        n = len(self.pos)
        D = np.zeros((3 * n, 3 * n), dtype=complex)
        q = np.asarray(q, dtype=float)
        for (j, jp, l), A in self.phi.items():
            dr = self.pos[jp] + np.array(l) - self.pos[j]
            D[3 * j:3 * j + 3, 3 * jp:3 * jp + 3] += A * np.exp(2j * np.pi * np.dot(q, dr)) / np.sqrt(masses[j] * masses[jp])
        return D


def fold_ifc(ifc, sc_pos_p, T):
    """Supercell force constants of an IFC model.

    sc_pos_p: supercell atom positions in PRIMITIVE fractional coordinates (n,3).
    T: 3x3 integer matrix whose ROWS are the supercell lattice vectors in primitive
       coordinates (a supercell lattice vector is t @ T for integer t).
    Returns fc (n,n,3,3), ju (primitive index of each supercell atom).
    """
    n = len(sc_pos_p)
    pos = ifc.pos
    ju = []
    lat = []
    for i in range(n):
        d = sc_pos_p[i] - pos
        k = int(np.argmin(np.linalg.norm(d - np.rint(d), axis=1)))
        if np.linalg.norm((d[k] - np.rint(d[k])) @ ifc.Lp) > 1e-4:
            raise ValueError("supercell atom does not sit on the primitive motif")
        ju.append(k)
        lat.append(np.rint(d[k]).astype(int))
    Tinv = np.linalg.inv(np.array(T, dtype=float))
    fc = np.zeros((n, n, 3, 3))
    lat = np.array(lat)
    for (j, jp, l), A in ifc.phi.items():
        ia = [a for a in range(n) if ju[a] == j]
        ib = [b for b in range(n) if ju[b] == jp]
        for a in ia:
            for b in ib:
                d = (lat[b] - lat[a] - np.array(l)) @ Tinv
                if np.abs(d - np.rint(d)).max() < 1e-8:
                    fc[a, b] += A
    return fc, ju
