"""Lattice arithmetic with proven enumeration windows (numpy only)."""
import itertools

import numpy as np


def coeff_bounds(L, radius):
    """For v = n @ L with |v| <= radius, |n_i| <= radius * |column i of L^-1|."""
    Linv = np.linalg.inv(L)
    return [int(np.floor(radius * np.linalg.norm(Linv[:, i]) + 1e-9)) + 1 for i in range(3)]


class TooExpensive(Exception):
    pass


def greedy_reduce(L, sweeps=60):
    """Unimodular size reduction (cost only: the enumeration window below is proven for ANY basis).
    Returns (R, U) with R = U @ L, U integer unimodular."""
    R = np.array(L, dtype=float)
    U = np.eye(3, dtype=np.int64)
    for _ in range(sweeps):
        changed = False
        for i in range(3):
            for j in range(3):
                if i == j:
                    continue
                k = int(np.rint(np.dot(R[i], R[j]) / np.dot(R[j], R[j])))
                if k:
                    R[i] -= k * R[j]
                    U[i] -= k * U[j]
                    changed = True
        # also try triple combinations
        for signs in ((1, 1), (1, -1), (-1, 1), (-1, -1)):
            for i in range(3):
                j, k = [x for x in range(3) if x != i]
                cand = R[i] + signs[0] * R[j] + signs[1] * R[k]
                if np.dot(cand, cand) < np.dot(R[i], R[i]) * (1 - 1e-12):
                    R[i] = cand
                    U[i] = U[i] + signs[0] * U[j] + signs[1] * U[k]
                    changed = True
        if not changed:
            break
    return R, U


def lattice_points_within(L, radius, centre=None, max_points=4_000_000):
    """All integer n with |(n + centre) @ L| <= radius (centre fractional, default 0)."""
    if centre is None:
        centre = np.zeros(3)
    centre = np.asarray(centre, dtype=float)
    bb = coeff_bounds(L, radius)
    if (2 * bb[0] + 4) * (2 * bb[1] + 4) * (2 * bb[2] + 4) > max_points:
        raise TooExpensive()
    # |n+c| coefficient bound
    b = coeff_bounds(L, radius)
    c0 = np.rint(centre).astype(int)
    rngs = [np.arange(-b[i] - c0[i] - 1, b[i] - c0[i] + 2) for i in range(3)]
    g = np.array(np.meshgrid(*rngs, indexing="ij")).reshape(3, -1).T
    v = (g + centre) @ L
    r = np.linalg.norm(v, axis=1)
    m = r <= radius
    return g[m], v[m], r[m]


def shortest_lattice_vector(L):
    """Length of the shortest non-zero lattice vector of L (rows)."""
    L, _ = greedy_reduce(np.asarray(L, dtype=float))
    r0 = min(np.linalg.norm(L[i]) for i in range(3))
    g, v, r = lattice_points_within(L, r0 * (1 + 1e-12))
    r = r[np.any(g != 0, axis=1)]
    return float(r.min())


def min_images(d_frac, L, tol):
    """Brute-force minimum-image set of the fractional separation d_frac w.r.t. lattice L.

    Returns (m, near) with m the true minimum length and near the list of
    (cartesian vector, length) of all images with length < m + 4*tol.
    """
    # work in a size-reduced basis of the SAME lattice: R = U @ L, fractional coords transform with U^-1
    R, U = greedy_reduce(L)
    d = np.asarray(d_frac, dtype=float) @ np.linalg.inv(U.astype(float))
    d = d - np.rint(d)
    L = R
    # upper bound on the minimum: length of reduced d itself in a few images
    cand = [np.linalg.norm((d + np.array(s)) @ L) for s in itertools.product((-1, 0, 1), repeat=3)]
    r0 = min(cand)
    g, v, r = lattice_points_within(L, r0 + 5 * tol, centre=d)
    m = float(r.min())
    sel = r < m + 4 * tol
    return m, v[sel], r[sel]
