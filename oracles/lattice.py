"""Lattice arithmetic with proven enumeration windows (numpy only)."""
import itertools

import numpy as np


def coeff_bounds(L, radius):
    """For v = n @ L with |v| <= radius, |n_i| <= radius * |column i of L^-1|."""
    Linv = np.linalg.inv(L)
    return [int(np.floor(radius * np.linalg.norm(Linv[:, i]) + 1e-9)) + 1 for i in range(3)]


def lattice_points_within(L, radius, centre=None):
    """All integer n with |(n + centre) @ L| <= radius (centre fractional, default 0)."""
    if centre is None:
        centre = np.zeros(3)
    centre = np.asarray(centre, dtype=float)
    # |n+c| coefficient bound
    b = coeff_bounds(L, radius)
    c0 = np.rint(centre).astype(int)
    rngs = [np.arange(-b[i] - c0[i] - 1, b[i] - c0[i] + 2) for i in range(3)]
    g = np.array(np.meshgrid(*rngs, indexing="ij")).reshape(3, -1).T
    v = (g + centre) @ L
    r = np.linalg.norm(v, axis=1)
    m = r <= radius
    return g[m], v[m], r[m]


def shortest_lattice_vector(L):
    """Length of the shortest non-zero lattice vector of L (rows)."""
    L = np.asarray(L, dtype=float)
    r0 = min(np.linalg.norm(L[i]) for i in range(3))
    g, v, r = lattice_points_within(L, r0 * (1 + 1e-12))
    r = r[np.any(g != 0, axis=1)]
    return float(r.min())


def min_images(d_frac, L, tol):
    """Brute-force minimum-image set of the fractional separation d_frac w.r.t. lattice L.

    Returns (m, near) with m the true minimum length and near the list of
    (cartesian vector, length) of all images with length < m + 4*tol.
    """
    d = np.asarray(d_frac, dtype=float)
    d = d - np.rint(d)
    # upper bound on the minimum: length of reduced d itself in a few images
    cand = [np.linalg.norm((d + np.array(s)) @ L) for s in itertools.product((-1, 0, 1), repeat=3)]
    r0 = min(cand)
    g, v, r = lattice_points_within(L, r0 + 5 * tol, centre=d)
    m = float(r.min())
    sel = r < m + 4 * tol
    return m, v[sel], r[sel]
