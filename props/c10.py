"""C10 Thermal properties equal harmonic closed forms and obey thermodynamic identities."""
import math

import numpy as np
from hypothesis import strategies as st

from vlib.case import Out, Sub, rng_from

PROPERTY = "C10"
TECHNIQUE = ("property-based testing (Hypothesis): differential against numerically stable closed forms (log1p/expm1) with an "
             "explicit rounding-error model, thermodynamic identities by finite differences, C vs Python paths")
RULE = ("Duck-typed mesh objects carry ARBITRARY frequency sets (log-uniform 1e-3..1e2 THz, negative = imaginary, exact "
        "zeros, duplicates) and integer weights; temperatures 0 and log-uniform so that h nu/kT spans 1e-8..1e4 (class "
        "x>709 must be populated); cutoff None|0|between modes; pretend_real; band_indices; projection; classical; lang C|Py. "
        "Non-trivial: >=2 distinct positive frequencies above the cutoff and T>0. Distinct by spec hash.")
ASSUMPTIONS = [
    "closed forms are evaluated with phonopy's own Kb, THzToEv, EvTokJmol; the constants themselves are compared with CODATA "
    "2018 in sub-check constants (5e-6 relative: phonopy's table mixes 1986/2006 values)",
    "tolerance = 1e-10 relative to the sum of |mode contributions| + rounding model sum_modes w kT 8 eps (1 + 1/x)",
]

EPS = np.finfo(float).eps
REQUIRED_CLASSES = {"closed_form": ["x>709", "tiny_mode", "lang:C", "lang:Py", "classical", "cutoff:mid"]}


class _P:
    Z = 1


class _DM:
    primitive = _P()


class FakeMesh:
    def __init__(self, f, w, ev=None):
        self.frequencies = np.array(f, dtype="double", order="C")
        self.weights = np.array(w, dtype="int64")
        self.eigenvectors = ev
        self.dynamical_matrix = _DM()


def units():
    from phonopy.units import EvTokJmol, Kb, THzToEv

    return Kb, THzToEv, EvTokJmol


def ref_tp(freqs, w, T, cutoff_thz, classical):
    """Stable closed forms. Returns (F,S,Cv) per cell in kJ/mol, J/K/mol, J/K/mol and magnitude/rounding-model sums."""
    Kb, THzToEv, EvTokJmol = units()
    F = S = C = 0.0
    aF = aS = aC = 0.0  # sum of |contributions|
    mF = mS = 0.0  # rounding model
    for fr, wt in zip(freqs, w):
        for nu in fr:
            E = nu * THzToEv
            if not E > cutoff_thz * THzToEv:
                continue
            if T == 0:
                if not classical:
                    F += wt * E / 2
                    aF += wt * E / 2
                continue
            x = E / (Kb * T)
            if classical:
                f_ = Kb * T * math.log(x)
                s_ = Kb * (1 - math.log(x))
                c_ = Kb
            else:
                l1 = math.log(-math.expm1(-x))  # log(1 - e^-x)
                f_ = E / 2 + Kb * T * l1
                s_ = Kb * (x * math.exp(-x) / (-math.expm1(-x)) - l1)
                c_ = Kb * x * x * math.exp(-x) / math.expm1(-x) ** 2
                aF += wt * (abs(E / 2) + abs(Kb * T * l1)) - wt * abs(f_)
            F += wt * f_
            S += wt * s_
            C += wt * c_
            aF += wt * abs(f_)
            aS += wt * abs(s_)
            aC += wt * abs(c_)
            mF += wt * Kb * T * 8 * EPS * (1 + 1 / x)
            mS += wt * Kb * 8 * EPS * (1 + 1 / x)
    N = float(sum(w))
    k1, k2 = EvTokJmol / N, EvTokJmol * 1000 / N
    # absolute floor: 1e-12 k_B per mode (cancellation in equivalent textbook forms such as x/2 coth(x/2) - ln(2 sinh(x/2)))
    nm = sum(wt * len(fr) for fr, wt in zip(freqs, w))
    flo = 1e-12 * Kb * nm
    return (F * k1, S * k2, C * k2), (aF * k1, aS * k2, aC * k2), ((mF + flo * T) * k1, (mS + flo) * k2, (mS + flo) * k2)


@st.composite
def cf_specs(draw, tier):
    nq = draw(st.integers(1, 4))
    nb = draw(st.integers(1, 7))
    if draw(st.sampled_from([0] * 11 + [1])):
        # a mesh of a size real calculations have (more than a thousand q-points; code paths chosen by size)
        nq = draw(st.sampled_from([1025, 1331, 2300, 4097]))
        nb = draw(st.integers(1, 3))
    return {
        "key": draw(st.integers(0, 2**32 - 1)), "nq": nq, "nb": nb,
        "neg_frac": draw(st.sampled_from([0.0, 0.0, 0.2])), "zeros": draw(st.booleans()), "dups": draw(st.booleans()),
        "tiny": draw(st.sampled_from([False, False, True])),
        "sorted": draw(st.booleans()),
        "cutoff": draw(st.sampled_from(["none", "zero", "mid", "mid", "negative"])),
        "classical": draw(st.sampled_from([False, False, True])),
        "pretend_real": draw(st.booleans()),
        "band_indices": draw(st.sampled_from(["none", "none", "subset", "reordered", "nested"])),
        "lang": draw(st.sampled_from(["C", "Py"])),
        "tlayout": draw(st.sampled_from(["array", "array", "list", "strided", "column", "float32ish"])),
        "torder": draw(st.sampled_from(["zero_first", "zero_first", "descending", "zero_inside", "with_duplicates"])),
        "logx": draw(st.lists(st.floats(-8, 4, allow_nan=False), min_size=1, max_size=5)),
        "T_plain": draw(st.lists(st.floats(1.0, 5000.0, allow_nan=False), min_size=0, max_size=3)),
    }


def make_freqs(spec):
    rng = rng_from(spec["key"])
    f = 10 ** rng.uniform(-3, 2, size=(spec["nq"], spec["nb"]))
    if spec["dups"] and spec["nb"] > 1:
        f[:, 1] = f[:, 0]
    if spec["neg_frac"]:
        f = f * np.where(rng.random(f.shape) < spec["neg_frac"], -1, 1)
    if spec["zeros"]:
        f[0, 0] = 0.0
    if spec.get("tiny") and f.size > 1:
        # acoustic modes at Gamma: tiny positive rounding residues
        f[-1, -1] = 10 ** rng.uniform(-16, -6)
    if spec["sorted"]:
        f = np.sort(f, axis=1)
    w = rng.integers(1, 9, size=spec["nq"])
    return f, w, rng


def _temps(spec, f):
    Kb, THzToEv, _ = units()
    pos = np.abs(f[np.abs(f) > 0])
    nu0 = float(np.median(pos)) if len(pos) else 1.0
    Ts = [0.0]
    for lx in spec["logx"]:
        Ts.append(nu0 * THzToEv / Kb / 10 ** lx)  # T such that h nu0 / kT = 10^lx
    Ts += list(spec["T_plain"])
    Ts = [t for t in Ts if t == 0 or 1e-6 < t < 1e12]
    order = spec.get("torder", "zero_first")
    if order == "descending":
        Ts = sorted(Ts, reverse=True)
    elif order == "zero_inside" and len(Ts) >= 3:
        Ts = Ts[1:2] + [0.0] + Ts[2:]
    elif order == "with_duplicates":
        Ts = Ts + [0.0] + Ts[-1:]
    return np.array(Ts, dtype="double")


def run_closed_form(spec):
    from phonopy.phonon.thermal_properties import ThermalProperties

    f, w, rng = make_freqs(spec)
    nb = spec["nb"]
    absf = np.sort(np.abs(f[np.abs(f) > 0]))
    cut = {"none": None, "zero": 0.0, "negative": -1.0}.get(spec["cutoff"], None)
    if spec["cutoff"] == "mid":
        if len(absf) >= 2:
            k = int(rng.integers(0, len(absf) - 1))
            cut = float(np.sqrt(absf[k] * absf[k + 1])) if absf[k + 1] > absf[k] * 1.001 else float(absf[k] * 1.5)
        else:
            cut = 0.5
    bi = None
    if spec["band_indices"] == "subset":
        bi = sorted(rng.choice(nb, size=max(1, nb // 2), replace=False).tolist())
    elif spec["band_indices"] == "reordered":
        bi = rng.permutation(nb).tolist()
    elif spec["band_indices"] == "nested":
        p = rng.permutation(nb).tolist()
        bi = [p[: nb // 2 + 1], p[nb // 2 + 1:]] if nb > 1 else [p]
        bi = [b for b in bi if b]
    Ts = _temps(spec, f)
    mesh = FakeMesh(f, w)
    tp = ThermalProperties(mesh, cutoff_frequency=cut, pretend_real=spec["pretend_real"], band_indices=bi, classical=spec["classical"])
    lay = spec.get("tlayout", "array")
    if lay == "list":
        tp.temperatures = Ts.tolist()
    elif lay == "strided":  # every second element of a longer array
        big = np.full(2 * len(Ts), 7777.0)
        big[::2] = Ts
        tp.temperatures = big[::2]
    elif lay == "column":  # one column of a table
        tab = np.full((len(Ts), 3), 4321.0)
        tab[:, 1] = Ts
        tp.temperatures = tab[:, 1]
    elif lay == "float32ish":  # Fortran-ordered 1-D slice of a 2-D array
        tab = np.asfortranarray(np.full((3, len(Ts)), 1234.0))
        tab[2, :] = Ts
        tp.temperatures = tab[2, :]
    else:
        tp.temperatures = Ts
    tp.run(lang=spec["lang"])
    Tret, F, S, C = tp.thermal_properties
    if len(Tret) != len(Ts) or not np.array_equal(np.asarray(Tret, dtype=float), Ts):
        return Out(ok=False, msg="reported temperatures %s differ from the requested ones %s (layout %s)" % (np.asarray(Tret).tolist(), Ts.tolist(), lay))
    # the mesh handed in is shared with other consumers (DOS, later thermal-property runs): it must not be modified
    if not (np.array_equal(mesh.frequencies, f) and np.array_equal(mesh.weights, w)):
        return Out(ok=False, msg="ThermalProperties modified the frequencies/weights of the mesh object it was given "
                                 "(pretend_real=%s, band_indices=%r)" % (spec["pretend_real"], bi))
    # reference on the frequencies the documentation says are used
    fsel = f if bi is None else f[:, np.hstack(bi).astype(int)]
    if spec["pretend_real"]:
        fsel = np.abs(fsel)
    cut_eff = 0.0 if (cut is None or cut < 0) else cut
    Kb, THzToEv, _ = units()
    n_above = int((fsel * THzToEv > cut_eff * THzToEv).sum())
    xmax = 0.0
    worst = 0.0
    for i, T in enumerate(Ts):
        ref, mag, model = ref_tp(fsel, w, float(T), cut_eff, spec["classical"])
        if T > 0 and n_above:
            xmax = max(xmax, float(fsel.max() * THzToEv / (Kb * T)))
        for name, got, r, m, mo in zip("FSC", (F[i], S[i], C[i]), ref, mag, model):
            if not np.isfinite(got):
                return Out(ok=False, msg="%s is not finite (%r) at T=%.6g K (lang %s, classical %s, max h nu/kT = %.3g)"
                           % (name, got, T, spec["lang"], spec["classical"], fsel.max() * THzToEv / (Kb * T) if T > 0 else 0))
            tol = 1e-10 * m + mo + 1e-300
            err = abs(got - r)
            worst = max(worst, err / tol)
            if err > tol:
                return Out(ok=False, info={"ratio": err / tol},
                           msg="%s=%r differs from the closed form %r at T=%.6g K (|diff| %.3e > tol %.3e; lang %s, cutoff %r, "
                               "classical %s, pretend_real %s, band_indices %r)" % (name, got, r, T, err, tol, spec["lang"], cut,
                                                                                   spec["classical"], spec["pretend_real"], bi))
    if tp.zero_point_energy is not None and not spec["classical"]:
        ref0, mag0, _ = ref_tp(fsel, w, 0.0, cut_eff, False)
        if abs(tp.zero_point_energy - ref0[0]) > 1e-10 * mag0[0] + 1e-300:
            return Out(ok=False, msg="zero_point_energy %r != sum over modes above the cutoff %r (cutoff %r)" % (tp.zero_point_energy, ref0[0], cut))
    distinct = len(set(np.round(fsel[fsel * THzToEv > cut_eff * THzToEv], 9).tolist()))
    classes = ["torder:" + spec.get("torder", "zero_first"), "tlayout:" + spec.get("tlayout", "array"), "lang:" + spec["lang"], "classical" if spec["classical"] else "quantum", "cutoff:" + spec["cutoff"],
               "bi:" + spec["band_indices"], "pretend" if spec["pretend_real"] else "asis",
               "x>709" if xmax > 709 else ("x>50" if xmax > 50 else "x<=50"), "tiny_mode" if spec.get("tiny") else "no_tiny_mode",
               "nq>1024" if spec["nq"] > 1024 else "nq<=4"]
    return Out(ok=True, nontrivial=distinct >= 2 and len(Ts) > 1, classes=classes, info={"tol_ratio": worst, "xmax": xmax})


@st.composite
def id_specs(draw, tier):
    return {"key": draw(st.integers(0, 2**32 - 1)), "nq": draw(st.integers(1, 3)), "nb": draw(st.integers(1, 6)),
            "neg_frac": 0.0, "zeros": False, "dups": draw(st.booleans()), "sorted": True,
            "classical": draw(st.sampled_from([False, False, True])), "lang": draw(st.sampled_from(["C", "Py"])),
            "T0": draw(st.floats(5.0, 2000.0, allow_nan=False))}


def run_identities(spec):
    from phonopy.phonon.thermal_properties import ThermalProperties

    f, w, rng = make_freqs(spec)
    Kb, THzToEv, EvTokJmol = units()
    T0 = spec["T0"]
    h = T0 * 1e-4
    Ts = np.array([T0 - 2 * h, T0 - h, T0, T0 + h, T0 + 2 * h, T0 * 1.5, T0 * 3, 1e7], dtype="double")
    tp = ThermalProperties(FakeMesh(f, w), classical=spec["classical"])
    tp.temperatures = Ts
    tp.run(lang=spec["lang"])
    _, F, S, C = tp.thermal_properties
    if not (np.isfinite(F).all() and np.isfinite(S).all() and np.isfinite(C).all()):
        return Out(ok=False, msg="non-finite thermal property on T grid around %.4g K" % T0)
    # five-point central differences
    dF = (F[0] - 8 * F[1] + 8 * F[3] - F[4]) / (12 * h) * 1000  # kJ/mol/K -> J/K/mol
    dS = (S[0] - 8 * S[1] + 8 * S[3] - S[4]) / (12 * h)
    scaleS = np.abs(S).max() + Kb * EvTokJmol * 1000 * 1e-3
    e1 = abs(S[2] + dF) / scaleS
    e2 = abs(C[2] - T0 * dS) / (np.abs(C).max() + Kb * EvTokJmol * 1000 * 1e-3)
    nmodes = f.shape[1]
    kmol = Kb * EvTokJmol * 1000
    if e1 > 1e-6:
        return Out(ok=False, msg="S != -dF/dT at T=%.5g K: rel %.3e" % (T0, e1))
    if e2 > 1e-6:
        return Out(ok=False, msg="C_V != T dS/dT at T=%.5g K: rel %.3e" % (T0, e2))
    seq = [2, 5, 6, 7]
    if spec["classical"]:
        if np.abs(C - nmodes * kmol).max() > 1e-9 * nmodes * kmol:
            return Out(ok=False, msg="classical C_V is not k_B per mode")
    else:
        if (S[seq] < -1e-12).any() or (C[seq] < -1e-12).any():
            return Out(ok=False, msg="negative S or C_V")
        if (np.diff(S[seq]) < -1e-7 * scaleS).any() or (np.diff(C[seq]) < -1e-7 * nmodes * kmol).any():
            return Out(ok=False, msg="S or C_V decreases with temperature: S=%s C=%s" % (S[seq], C[seq]))
        if abs(C[7] - nmodes * kmol) > 1e-6 * nmodes * kmol:
            return Out(ok=False, msg="C_V does not tend to k_B per mode at T=1e7 K: %r vs %r" % (C[7], nmodes * kmol))
    return Out(ok=True, nontrivial=len(set(np.round(f.ravel(), 9))) >= 2, classes=["lang:" + spec["lang"], "classical" if spec["classical"] else "quantum"],
               info={"err": max(e1, e2)})


@st.composite
def proj_specs(draw, tier):
    return {"key": draw(st.integers(0, 2**32 - 1)), "nq": draw(st.integers(1, 3)), "natom": draw(st.integers(1, 3)),
            "neg_frac": draw(st.sampled_from([0.0, 0.2])), "cutoff": draw(st.sampled_from([None, 0.5])),
            "classical": draw(st.booleans()), "T": draw(st.lists(st.floats(0.0, 3000.0, allow_nan=False), min_size=1, max_size=4))}


def run_projection(spec):
    from phonopy.phonon.thermal_properties import ThermalProperties

    rng = rng_from(spec["key"])
    nb = 3 * spec["natom"]
    f = 10 ** rng.uniform(-1, 1.5, size=(spec["nq"], nb))
    if spec["neg_frac"]:
        f = f * np.where(rng.random(f.shape) < spec["neg_frac"], -1, 1)
    w = rng.integers(1, 5, size=spec["nq"])
    ev = []
    for _ in range(spec["nq"]):
        A = rng.normal(size=(nb, nb)) + 1j * rng.normal(size=(nb, nb))
        q, _r = np.linalg.qr(A)
        ev.append(q)
    ev = np.array(ev)
    Ts = np.array(sorted(spec["T"]), dtype="double")
    out = {}
    for proj in (False, True):
        tp = ThermalProperties(FakeMesh(f, w, ev), cutoff_frequency=spec["cutoff"], is_projection=proj, classical=spec["classical"])
        tp.temperatures = Ts
        tp.run(lang="Py")
        out[proj] = tp
    tot = np.array(out[False].thermal_properties[1:])
    pj = out[True]._projected_thermal_properties
    worst = 0.0
    for i in range(3):
        s = np.array(pj[i + 1]).sum(axis=1)
        sc = np.abs(np.array(pj[i + 1])).sum(axis=1).max() + 1e-300
        e = np.abs(s - tot[i]).max() / sc
        worst = max(worst, e)
        if e > 1e-10:
            return Out(ok=False, msg="projected %s do not sum to the total: rel %.3e" % ("FSC"[i], e))
    # band-index partition sums to total
    parts = [[0], list(range(1, nb))]
    acc = 0
    for b in parts:
        tp = ThermalProperties(FakeMesh(f, w, ev), cutoff_frequency=spec["cutoff"], band_indices=b, classical=spec["classical"])
        tp.temperatures = Ts
        tp.run(lang="C")
        acc = acc + np.array(tp.thermal_properties[1:])
    tpc = ThermalProperties(FakeMesh(f, w, ev), cutoff_frequency=spec["cutoff"], classical=spec["classical"])
    tpc.temperatures = Ts
    tpc.run(lang="C")
    totc = np.array(tpc.thermal_properties[1:])
    e = np.abs(acc - totc).max() / (np.abs(totc).max() + 1e-300)
    if e > 1e-10:
        return Out(ok=False, msg="band-index partition does not sum to the total: rel %.3e" % e)
    return Out(ok=True, nontrivial=nb >= 3, classes=["classical" if spec["classical"] else "quantum"], info={"err": max(worst, e)})


def const_specs(tier):
    return [{"which": k} for k in ("Kb", "THzToEv", "EvTokJmol", "KB_C_macro", "Hartree", "Bohr", "AMU", "VaspToTHz", "PlanckConstant", "Avogadro", "EV", "Hbar", "Angstrom", "THz", "EVAngstromToGPa", "THzToCm")]


def run_constants(spec):
    import re

    from phonopy import units as U
    from vlib.case import REPO

    h = 4.135667696e-15  # eV s (CODATA 2018, exact SI)
    kB = 8.617333262e-5  # eV/K
    NA = 6.02214076e23
    e = 1.602176634e-19
    amu = 1.66053906660e-27
    ref = {"Kb": kB, "THzToEv": h * 1e12, "EvTokJmol": e * NA / 1000, "Hartree": 27.211386245988, "Bohr": 0.529177210903,
           "AMU": amu, "PlanckConstant": h, "Avogadro": NA,
           "VaspToTHz": math.sqrt(e / 1e-20 / amu) / (2 * math.pi) / 1e12,
           "EV": e, "Hbar": h / (2 * math.pi), "Angstrom": 1e-10, "THz": 1e12, "EVAngstromToGPa": e / 1e-30 / 1e9,
           "THzToCm": 1e12 / 299792458.0 / 100}
    k = spec["which"]
    if k == "KB_C_macro":
        src = open(REPO + "/c/phonopy.c").read()
        m = re.search(r"#define\s+KB\s+([0-9.eE+-]+)", src)
        if not m:
            return Out(ok=False, msg="KB macro not found in c/phonopy.c")
        got, want = float(m.group(1)), U.Kb
        rel = abs(got - want) / want
        if rel > 1e-12:
            return Out(ok=False, msg="C macro KB=%r differs from phonopy.units.Kb=%r" % (got, want))
        return Out(ok=True, nontrivial=True, info={"rel": rel})
    got = getattr(U, k)
    rel = abs(got - ref[k]) / ref[k]
    if rel > 5e-6:
        return Out(ok=False, msg="phonopy.units.%s = %r deviates from CODATA %r by %.3e" % (k, got, ref[k], rel))
    return Out(ok=True, nontrivial=True, info={"rel": rel})


@st.composite
def api_specs(draw, tier):
    from gen.crystals import crystal_specs

    return {"crystal": draw(crystal_specs(max_unit=4, kinds=("hall", "proto"), masses=True)), "mesh": draw(st.lists(st.integers(1, 4), min_size=3, max_size=3)),
            "cutoff": draw(st.sampled_from([None, 0.3])), "classical": draw(st.booleans()),
            "tmax": draw(st.sampled_from([300.0, 1000.0])), "tstep": draw(st.sampled_from([50.0, 100.0]))}


def run_api(spec):
    from gen.crystals import build_crystal
    from oracles.models import springs_fc
    from phonopy import Phonopy

    c = build_crystal(spec["crystal"])
    if c is None:
        return Out(nontrivial=False, classes=["discarded_overlap"])
    if len(c["cell"]) > 8:
        return Out(nontrivial=False, classes=["too_large"])
    try:
        ph = Phonopy(c["cell"], supercell_matrix=np.eye(3, dtype=int), log_level=0)
    except Exception as e:
        return Out(nontrivial=False, rejected=True, classes=["ctor_rejected:" + type(e).__name__])
    ph.force_constants = springs_fc(ph.supercell)
    ph.run_mesh(spec["mesh"], is_mesh_symmetry=False)
    d = ph.get_mesh_dict()
    fmax = float(np.abs(d["frequencies"]).max())
    cut = max(spec["cutoff"] or 0.0, 1e-3 * fmax)
    ph.run_thermal_properties(t_min=0, t_max=spec["tmax"], t_step=spec["tstep"], cutoff_frequency=cut, classical=spec["classical"])
    tpd = ph.get_thermal_properties_dict()
    Ts = tpd["temperatures"]
    want_T = np.arange(0, spec["tmax"] + spec["tstep"] / 2.0, spec["tstep"])
    if len(Ts) != len(want_T) or np.abs(Ts - want_T).max() > 1e-9:
        return Out(ok=False, msg="temperature grid %s, expected %s" % (Ts, want_T))
    worst = 0
    for i, T in enumerate(Ts):
        ref, mag, model = ref_tp(d["frequencies"], d["weights"], float(T), cut, spec["classical"])
        for name, key, r, m, mo in zip("FSC", ("free_energy", "entropy", "heat_capacity"), ref, mag, model):
            got = tpd[key][i]
            tol = 1e-9 * m + mo + 1e-300
            if not abs(got - r) <= tol:
                return Out(ok=False, msg="Phonopy.run_thermal_properties %s=%r != weighted closed-form sum %r at T=%g" % (name, got, r, T))
            worst = max(worst, abs(got - r) / tol)
    return Out(ok=True, nontrivial=len(ph.primitive) >= 1 and len(Ts) > 1, classes=["classical" if spec["classical"] else "quantum"], info={"tol_ratio": worst})


SUBCHECKS = [
    Sub("closed_form", run=run_closed_form, strategy=cf_specs, examples={"quick": 12000, "thorough": 400000},
        shards={"quick": 8, "thorough": 16}, budget={"quick": 100, "thorough": 2400},
        what="F,S,C_V == weighted harmonic closed forms over modes above the cutoff, any frequency set, C and Py, h nu/kT up to 1e4"),
    Sub("identities", run=run_identities, strategy=id_specs, examples={"quick": 3000, "thorough": 100000},
        shards={"quick": 4, "thorough": 16}, what="S=-dF/dT, C_V=T dS/dT, monotonic, C_V -> k_B per mode, classical variant"),
    Sub("projection", run=run_projection, strategy=proj_specs, examples={"quick": 1000, "thorough": 30000},
        shards={"quick": 2, "thorough": 8}, what="mode projections and band-index partitions sum to totals"),
    Sub("api", run=run_api, strategy=api_specs, examples={"quick": 150, "thorough": 5000}, shards={"quick": 4, "thorough": 16},
        budget={"quick": 100, "thorough": 1800}, what="Phonopy.run_thermal_properties equals own weighted sum over the mesh it reports"),
    Sub("constants", run=run_constants, enumerate=const_specs, shards={"quick": 1, "thorough": 1}, builds=["omp"],
        what="unit constants vs CODATA 2018; C macro KB == phonopy.units.Kb"),
]
