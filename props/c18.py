"""C18 Command-line tools are faithful front-ends of the library."""
import os
import re
import shutil
import subprocess
import sys
import tempfile

import numpy as np
from hypothesis import strategies as st

from gen.crystals import keys
from oracles.models import springs_fc
from vlib.case import REPO, Out, Sub, rng_from

PROPERTY = "C18"
TECHNIQUE = ("exhaustive enumeration of the documented tag/option table x property-based values per tag grammar (Hypothesis): "
             "differential configuration-file route vs option route on the parsed Settings, also for EVERY pair of documented settings split either way "
             "between file and command line (exhaustive) and random 2-4 setting mixtures; generated end-to-end workflows run through "
             "the real command entry points in subprocesses and compared with the library's results at the printed precision")
RULE = ("'tags': every (option, tag) pair of doc/command-options.md, both commands, with values drawn from the tag's grammar (bool, "
        "int, float, 3-vector, 3x3 matrix incl. fractions, choice strings, q lists, band paths). 'tags_pairs': all pairs x both splits x both commands; "
        "'tags_mixed': 2-4 settings, at most one per group of mutually exclusive run modes. 'workflows': generated 2-species "
        "crystals, dim, primitive axes, NAC on/off, and a run mode drawn from mesh+thermal properties | band | q-points | dos | pdos "
        "| thermal displacements | write-fc/read-fc, each expressed (a) by options, (b) by a configuration file, and compared with "
        "library calls; -d and -f steps; final phonopy.yaml reloaded. Non-trivial: >= 2 settings combined, crystal with >= 2 atoms.")
ASSUMPTIONS = [
    "symfc (default force-constant engine of phonopy-load) is not installed: phonopy-load runs use --fc-calc traditional or --readfc",
    "enumeration strings (FC_CALCULATOR, NAC_METHOD, *_FORMAT) are compared case-insensitively because every consumer lower-cases them",
    "plotting (-p) is not exercised",
]
VERIF = os.path.dirname(os.path.dirname(os.path.abspath(__file__)))


def doc_pairs():
    doc = open(REPO + "/doc/command-options.md").read()
    start = doc.index("respective setting tags:")
    end = doc.index("When both of equivalent")
    block = doc[start:end].replace("\n  ", " ")
    pairs = []
    for ln in block.split("\n"):
        m = re.match(r"- (.*?) \((.*?)\)", ln)
        if m:
            opts = re.findall(r"`(-[^`]+)`", m.group(1))
            tags = re.findall(r"`([^`]+)`", m.group(2))
            pairs.append((opts, tags))
    return pairs


frac = st.sampled_from(["0", "1/2", "1/3", "0.25", "-1/2", "1", "0.1", "2/3"])
num3 = st.lists(st.sampled_from(["0", "1", "0.5", "-0.5", "0.25", "1/2", "1/3"]), min_size=3, max_size=3)
dec3 = st.lists(st.sampled_from(["0", "1", "0.5", "-0.5", "0.25", "2"]), min_size=3, max_size=3)
BOOL_TAGS = {"FULL_FORCE_CONSTANTS", "GAMMA_CENTER", "LITTLE_COGROUP", "SHOW_IRREPS"}  # documented as flags: TAG = .TRUE. <-> bare option
GRAMMAR = {
    "DIM": st.one_of(st.lists(st.integers(1, 3), min_size=3, max_size=3).map(lambda v: " ".join(map(str, v))),
                     st.lists(st.integers(-1, 2), min_size=9, max_size=9).map(lambda v: " ".join(map(str, v)))),
    "MESH": st.one_of(st.lists(st.integers(1, 9), min_size=3, max_size=3).map(lambda v: " ".join(map(str, v))), st.sampled_from(["10.0", "25", "33.3"])),
    "BAND": st.lists(num3.map(" ".join), min_size=2, max_size=4).map("  ".join),
    "BAND_POINTS": st.integers(2, 101).map(str), "TMAX": st.sampled_from(["500", "300.5", "1200", "10"]), "TMIN": st.sampled_from(["0", "10", "99.5"]),
    "TSTEP": st.sampled_from(["5", "10", "50", "2.5"]), "SIGMA": st.sampled_from(["0.1", "0.05", "1"]), "FMAX": st.sampled_from(["10", "25.5"]),
    "FMIN": st.sampled_from(["-1", "0", "0.5"]), "FPITCH": st.sampled_from(["0.05", "0.1"]),
    "PRIMITIVE_AXES": st.one_of(st.sampled_from(["F", "I", "A", "C", "R", "P", "auto"]), st.lists(frac, min_size=9, max_size=9).map(" ".join)),
    "DISPLACEMENT_DISTANCE": st.sampled_from(["0.03", "0.01", "0.2"]), "CUTOFF_FREQUENCY": st.sampled_from(["0.5", "0", "1e-3"]),
    "SYMMETRY_TOLERANCE": st.sampled_from(["1e-3", "1e-5", "0.01"]), "Q_DIRECTION": dec3.map(" ".join),
    "QPOINTS": st.lists(num3.map(" ".join), min_size=1, max_size=3).map("  ".join), "PDOS": st.sampled_from(["1 2", "1, 2", "1 2, 3 4", "auto"]),
    "PROJECTION_DIRECTION": dec3.map(" ".join), "GV_DELTA_Q": st.sampled_from(["0.001", "1e-4"]), "NAC_METHOD": st.sampled_from(["wang", "gonze", "Gonze", "WANG"]),
    "BAND_LABELS": st.sampled_from(["G X", "$\\Gamma$ X M", "A B C D"]), "MAGMOM": st.sampled_from(["1 -1", "1.0 1.0 -1.0 -1.0", "0 0 1 0 0 -1"]),
    "FREQUENCY_CONVERSION_FACTOR": st.sampled_from(["2.0", "15.633302", "1"]), "RANDOM_DISPLACEMENTS": st.sampled_from(["5", "1", "auto"]),
    "RANDOM_DISPLACEMENT_TEMPERATURE": st.sampled_from(["300", "10.5"]), "MOMENT_ORDER": st.sampled_from(["1", "2", "3"]),
    "IRREPS": st.sampled_from(["0 0 0", "1/2 0 0", "0 0 0 1e-3"]), "MODULATION": st.sampled_from(["1 1 1, 0 0 0 1 1 0", "2 2 2, 1/2 0 0 2 0.5 90"]),
    "ANIME": st.sampled_from(["0 0 0", "4 5 20 0.5 0.5 0"]), "BAND_FORMAT": st.sampled_from(["hdf5", "yaml"]), "MESH_FORMAT": st.sampled_from(["hdf5", "yaml"]),
    "QPOINTS_FORMAT": st.sampled_from(["hdf5", "yaml"]), "READFC_FORMAT": st.sampled_from(["hdf5", "text"]), "WRITEFC_FORMAT": st.sampled_from(["hdf5", "text"]),
    "FC_CALCULATOR": st.sampled_from(["alm", "symfc", "traditional"]), "FC_CALCULATOR_OPTIONS": st.sampled_from(["cutoff5", "solver_dense"]),
    "CELL_FILENAME": st.sampled_from(["POSCAR-x", "my.cell"]),
    "SHOW_IRREPS": st.just(".TRUE."), "FULL_FORCE_CONSTANTS": st.just(".TRUE."), "GAMMA_CENTER": st.just(".TRUE."), "LITTLE_COGROUP": st.just(".TRUE."),
}
LOWER = {"fc_calculator", "nac_method", "band_format", "mesh_format", "qpoints_format", "readfc_format", "writefc_format", "fc_calculator_options"}


@st.composite
def tag_specs(draw, tier):
    pairs = doc_pairs()
    i = draw(st.integers(0, len(pairs) - 1))
    opts, tags = pairs[i]
    tag = draw(st.sampled_from(tags))
    spec = {"pair": i, "opt": draw(st.sampled_from(opts)), "tag": tag, "load": draw(st.booleans())}
    if "=" not in tag and tag in GRAMMAR:
        spec["value"] = draw(GRAMMAR[tag])
    return spec


def settings_dict(s):
    out = {}
    for k, v in vars(s).items():
        if k == "_v":
            for kk, vv in v.items():
                if isinstance(vv, (np.ndarray, list, tuple)):
                    try:
                        vv = np.array(vv, dtype=float).tolist()
                    except (TypeError, ValueError):
                        vv = [str(x) for x in np.array(vv, dtype=object).ravel().tolist()]
                if kk in LOWER and isinstance(vv, str):
                    vv = vv.lower()
                if isinstance(vv, (int, float, np.integer, np.floating)) and not isinstance(vv, bool):
                    vv = float(vv)
                out[kk] = vv
    return out


def run_tags(spec):
    import contextlib
    import io

    from phonopy.cui.phonopy_argparse import get_parser
    from phonopy.cui.settings import PhonopyConfParser

    tag = spec["tag"]
    if "=" in tag:
        key, val = [x.strip() for x in tag.split("=")]
        optargv = [spec["opt"]]
    else:
        key = tag
        if "value" not in spec:
            return Out(nontrivial=False, classes=["no_grammar:" + key])
        val = spec["value"]
        if key in ("BAND_LABELS",):
            optargv = [spec["opt"]] + val.split()
        elif key in BOOL_TAGS:
            optargv = [spec["opt"]]
        else:
            optargv = [spec["opt"], val]
    old_argv = sys.argv
    sys.argv = ["phonopy"] + optargv
    buf = io.StringIO()
    try:
        with contextlib.redirect_stderr(buf), contextlib.redirect_stdout(buf):
            parser, _ = get_parser(load_phonopy_yaml=spec["load"])
            try:
                args = parser.parse_args(optargv)
            except SystemExit:
                # option not defined for this command (e.g. --dim under phonopy-load): nothing is promised
                return Out(nontrivial=False, classes=["not_in_command:%s:%s" % (spec["opt"], "load" if spec["load"] else "phonopy")])
            exits = {}
            try:
                sB = PhonopyConfParser(args=args).settings
            except SystemExit:
                exits["option"] = True
            td = tempfile.mkdtemp(prefix="c18-", dir=os.environ.get("VERIF_TMP", "/var/tmp"))
            fn = os.path.join(td, "x.conf")
            with open(fn, "w") as f:
                f.write("%s = %s\n" % (key, val))
            try:
                sA = PhonopyConfParser(filename=fn, args=parser.parse_args([])).settings
            except SystemExit:
                exits["tag"] = True
            finally:
                shutil.rmtree(td, ignore_errors=True)
            if exits:
                if len(exits) == 2:
                    return Out(nontrivial=False, rejected=True, classes=["both_routes_reject:" + key])
                return Out(ok=False, msg="value '%s' for %s is rejected by the %s route only (%s)" % (val, key, list(exits)[0], buf.getvalue()[-200:]))
    except Exception as e:
        from vlib.case import short_tb

        return Out(ok=False, msg="parsing %s = %s / %s raised %r\n%s" % (key, val, optargv, e, short_tb(e)))
    finally:
        sys.argv = old_argv
    a, b = settings_dict(sA), settings_dict(sB)
    diff = {k: (a.get(k), b.get(k)) for k in set(a) | set(b) if repr(a.get(k)) != repr(b.get(k))}
    if diff:
        return Out(ok=False, msg="tag '%s = %s' and option '%s' give different settings (%s): %s"
                   % (key, val, " ".join(optargv), "phonopy-load" if spec["load"] else "phonopy", diff))
    return Out(ok=True, nontrivial=True, key="%s|%s|%s|%s" % (spec["opt"], key, val, spec["load"]), classes=["tag:" + key, "load" if spec["load"] else "phonopy"])


# tags that select what the command computes: two of them compete for the run mode and their precedence is not documented,
# so at most one of them takes part in a mixed specification (all other settings are independent of each other)
RUNMODE = {"TPROP", "TDISP", "TDISPMAT", "TDISPMAT_CIF", "ANIME", "QPOINTS", "BAND", "DOS", "PDOS", "IRREPS", "MODULATION",
           "CREATE_DISPLACEMENTS", "MOMENT", "RANDOM_DISPLACEMENTS", "DEBYE_MODEL", "BAND_CONNECTION", "MESH", "MP"}
EXCLUSIVE = [RUNMODE, {"PROJECTION_DIRECTION", "XYZ_PROJECTION"}]


@st.composite
def mixed_specs(draw, tier):
    """Several documented settings at once, each given either in the configuration file or on the command line."""
    pairs = doc_pairs()
    idx = draw(st.lists(st.integers(0, len(pairs) - 1), min_size=2, max_size=4, unique=True))
    items, seen = [], set()
    for i in idx:
        opts, tags = pairs[i]
        tag = draw(st.sampled_from(tags))
        key = tag.split("=")[0].strip()
        if key in seen or ("=" not in tag and tag not in GRAMMAR) or any(key in g and seen & g for g in EXCLUSIVE):
            continue
        seen.add(key)
        it = {"opt": draw(st.sampled_from(opts)), "tag": tag, "in_conf": draw(st.booleans())}
        if "=" not in tag:
            it["value"] = draw(GRAMMAR[tag])
        items.append(it)
    return {"items": items, "load": draw(st.booleans())}


def _optargv(it):
    tag = it["tag"]
    if "=" in tag:
        return [it["opt"]]
    if tag == "BAND_LABELS":
        return [it["opt"]] + it["value"].split()
    if tag in BOOL_TAGS:
        return [it["opt"]]
    return [it["opt"], it["value"]]


def _confline(it):
    tag = it["tag"]
    return tag if "=" in tag else "%s = %s" % (tag, it["value"])


def run_tags_mixed(spec):
    import contextlib
    import io

    from phonopy.cui.phonopy_argparse import get_parser
    from phonopy.cui.settings import PhonopyConfParser

    items = spec["items"]
    if len(items) < 2:
        return Out(nontrivial=False, classes=["fewer_than_two_settings"])
    if all(it["in_conf"] for it in items) or not any(it["in_conf"] for it in items):
        items = [dict(it, in_conf=(k % 2 == 0)) for k, it in enumerate(items)]
    routes = {"all_tags": [True] * len(items), "all_options": [False] * len(items), "mixed": [it["in_conf"] for it in items]}
    old_argv = sys.argv
    buf = io.StringIO()
    res, exits = {}, {}
    try:
        with contextlib.redirect_stderr(buf), contextlib.redirect_stdout(buf):
            parser, _ = get_parser(load_phonopy_yaml=spec["load"])
            for it in items:  # every option must exist for this command
                try:
                    parser.parse_args(_optargv(it))
                except SystemExit:
                    return Out(nontrivial=False, classes=["not_in_command"])
            for name, where in routes.items():
                argv = [a for it, c in zip(items, where) if not c for a in _optargv(it)]
                lines = [_confline(it) for it, c in zip(items, where) if c]
                sys.argv = ["phonopy"] + argv
                td = tempfile.mkdtemp(prefix="c18-", dir=os.environ.get("VERIF_TMP", "/var/tmp"))
                fn = os.path.join(td, "x.conf")
                with open(fn, "w") as f:
                    f.write("\n".join(lines) + "\n")
                try:
                    args = parser.parse_args(argv)
                    res[name] = settings_dict(PhonopyConfParser(filename=fn if lines else None, args=args).settings)
                except SystemExit:
                    exits[name] = True
                finally:
                    shutil.rmtree(td, ignore_errors=True)
    except Exception as e:
        from vlib.case import short_tb

        return Out(ok=False, msg="parsing %s raised %r\n%s" % (items, e, short_tb(e)))
    finally:
        sys.argv = old_argv
    desc = "; ".join(("%s [conf]" % _confline(it)) if it["in_conf"] else ("%s [option]" % " ".join(_optargv(it))) for it in items)
    if exits:
        if len(exits) == 3:
            return Out(nontrivial=False, rejected=True, classes=["all_routes_reject"])
        return Out(ok=False, msg="settings {%s} are rejected by route(s) %s only (%s)" % (desc, sorted(exits), buf.getvalue()[-200:]))
    for name in ("all_options", "mixed"):
        a, b = res["all_tags"], res[name]
        diff = {k: (a.get(k), b.get(k)) for k in set(a) | set(b) if repr(a.get(k)) != repr(b.get(k))}
        if diff:
            return Out(ok=False, msg="the same settings give different results when given as tags only and as %s {%s} (%s): %s"
                       % (name, desc, "phonopy-load" if spec["load"] else "phonopy", diff))
    return Out(ok=True, nontrivial=True, key=desc + "|%s" % spec["load"], classes=["n:%d" % len(items), "load" if spec["load"] else "phonopy"] +
               ["tag:" + it["tag"].split("=")[0].strip() for it in items])


CANON = {"DIM": "2 2 1", "MESH": "4 4 4", "MP": "3 3 2", "BAND": "0 0 0 1/2 0 0  1/2 1/2 0", "BAND_POINTS": "11", "TMAX": "500", "TMIN": "10", "TSTEP": "5",
         "SIGMA": "0.1", "FMAX": "25.5", "FMIN": "-1", "FPITCH": "0.05", "PRIMITIVE_AXES": "F", "DISPLACEMENT_DISTANCE": "0.03", "CUTOFF_FREQUENCY": "0.5",
         "SYMMETRY_TOLERANCE": "1e-3", "Q_DIRECTION": "1 0 0", "QPOINTS": "0 0 0  1/2 0 0", "PDOS": "1 2", "PROJECTION_DIRECTION": "0 0 1",
         "GV_DELTA_Q": "0.001", "NAC_METHOD": "wang", "BAND_LABELS": "G X M", "MAGMOM": "1 -1", "FREQUENCY_CONVERSION_FACTOR": "2.0",
         "RANDOM_DISPLACEMENTS": "5", "RANDOM_DISPLACEMENT_TEMPERATURE": "300", "MOMENT_ORDER": "2", "IRREPS": "0 0 0", "MODULATION": "1 1 1, 0 0 0 1 1 0",
         "ANIME": "0 0 0", "BAND_FORMAT": "hdf5", "MESH_FORMAT": "hdf5", "QPOINTS_FORMAT": "hdf5", "READFC_FORMAT": "hdf5", "WRITEFC_FORMAT": "hdf5",
         "FC_CALCULATOR": "symfc", "FC_CALCULATOR_OPTIONS": "cutoff5", "CELL_FILENAME": "POSCAR-x", "SHOW_IRREPS": ".TRUE.", "FULL_FORCE_CONSTANTS": ".TRUE.",
         "GAMMA_CENTER": ".TRUE.", "LITTLE_COGROUP": ".TRUE."}


def pair_specs(tier):
    """EVERY unordered pair of documented settings (one canonical value each), both ways of splitting it between the configuration
    file and the command line, both commands."""
    pairs = doc_pairs()
    items = []
    for opts, tags in pairs:
        for tag in tags:
            key = tag.split("=")[0].strip()
            if "=" in tag or key in CANON:
                it = {"opt": opts[0], "tag": tag}
                if "=" not in tag:
                    it["value"] = CANON[key]
                items.append((key, it))
    out = []
    for a in range(len(items)):
        for b in range(a + 1, len(items)):
            ka, kb = items[a][0], items[b][0]
            if ka == kb or any(ka in g and kb in g for g in EXCLUSIVE):
                continue
            for split in (0, 1):
                for load in (False, True):
                    out.append({"items": [dict(items[a][1], in_conf=bool(split)), dict(items[b][1], in_conf=not split)], "load": load})
    return out


# ----------------------------------------------------------------------------------------- workflows

def cli(cmd, argv, cwd, timeout=300):
    from vlib import build as B

    env = dict(os.environ)
    env["PYTHONPATH"] = VERIF + os.pathsep + B.REPO + os.pathsep + B.DEPS
    env.setdefault("VERIF_BUILD", "omp")
    env["OMP_NUM_THREADS"] = "2"
    p = subprocess.run([sys.executable, "-m", "vlib.cli_launch", cmd] + argv, cwd=cwd, env=env, capture_output=True, text=True, timeout=timeout)
    return p


import itertools as _it

# configuration combinations are covered systematically (each quick run visits every combination several times); the run mode
# and numeric settings are drawn at random on top
COMBOS = [dict(cmd=c, calc=k, nac=n, explicit_calc=e, born_late=b)
          for c, k, n, e, b in _it.product(["phonopy", "phonopy-load"], ["vasp", "qe"], [False, True], [True, False], [False, True])
          if not (c == "phonopy" and (not e or b)) and not (not n and b)]


@st.composite
def wf_specs(draw, tier):
    combo = draw(st.sampled_from(COMBOS))
    spec = {"key": draw(keys), "proto": draw(st.sampled_from(["nacl_f", "cscl", "tric"])), "dim": draw(st.sampled_from([[2, 2, 2], [1, 1, 1], [2, 1, 1]])),
            "mode": draw(st.sampled_from(["mesh_tprop", "band", "qpoints", "dos", "pdos", "tdisp", "tdispmat", "writefc_readfc", "disp"])),
            "pm": draw(st.sampled_from(["auto", "true", "false"])), "diag": draw(st.booleans()), "amp": draw(st.sampled_from(["0.03", "0.011"])),
            "mesh": draw(st.lists(st.integers(2, 5), min_size=3, max_size=3)),
            "tmin": draw(st.sampled_from([0, 50, 100])), "tmax": draw(st.sampled_from([300, 400, 750])), "tstep": draw(st.sampled_from([50, 100, 150])),
            "sigma": draw(st.sampled_from([None, 0.1, 0.25])), "gamma_center": draw(st.booleans()), "eigvecs": draw(st.booleans()),
            "band_const": draw(st.booleans()), "band_points": draw(st.sampled_from([5, 11, 16])),
            # phonopy-load: primitive axes given again on the command line / in the conf file, possibly different from the yaml's
            "load_pa": draw(st.sampled_from([None, None, "P", "auto"]))}
    if spec["mode"] == "band":
        # band paths with similar q-spacing depend on the reciprocal metric: prefer a strongly non-orthogonal cell there
        spec["proto"] = draw(st.sampled_from(["shear", "shear", "shear", "tric", "nacl_f", "cscl"]))
        spec["band_const"] = draw(st.sampled_from([True, True, False]))
        spec["band_labels"] = draw(st.sampled_from(["none", "two_paths", "connected_then_jump", "jump_then_connected"]))
    if spec["mode"] == "disp":
        # plus-minus settings matter where +d and -d are not symmetry-equivalent: low-symmetry prototypes
        spec["proto"] = draw(st.sampled_from(["tric", "shear", "tric", "nacl_f"]))
        spec["pm"] = draw(st.sampled_from(["false", "false", "true", "auto"]))
        # VASP route: MAGMOM file written next to SPOSCAR must list the moments in the atom order of SPOSCAR
        spec["magmom"] = draw(st.sampled_from(["none", "Na Cl", "Cl Na", "Cl Na Cl", "Na Cl Na"]))
    spec.update(combo)
    if spec["nac"]:
        spec["load_pa"] = None  # Born charges recorded for one primitive cell cannot be combined with another (documented error)
    elif spec["cmd"] == "phonopy-load" and spec["proto"] == "nacl_f" and spec["key"] % 2 == 0:
        spec["load_pa"] = "P"  # the yaml file records F: the request must override it
    return spec


def make_inputs(spec, d):
    """Write POSCAR-like unit cell, FORCE_SETS from an exactly harmonic model and BORN into directory d; return library objects."""
    from phonopy import Phonopy
    from phonopy.file_IO import write_FORCE_SETS
    from phonopy.interface.calculator import get_default_physical_units, write_crystal_structure
    from phonopy.structure.atoms import PhonopyAtoms

    rng = rng_from(spec["key"])
    if spec["proto"] == "nacl_f":
        a = 5.6
        cell = PhonopyAtoms(symbols=["Na"] * 4 + ["Cl"] * 4, cell=np.eye(3) * a,
                            scaled_positions=[[0, 0, 0], [0, .5, .5], [.5, 0, .5], [.5, .5, 0], [.5, .5, .5], [.5, 0, 0], [0, .5, 0], [0, 0, .5]])
        pa, pa_str = "F", "F"
        if spec["dim"] == [2, 2, 2]:
            spec = dict(spec, dim=[1, 1, 1])
    elif spec["proto"] == "cscl":
        cell = PhonopyAtoms(symbols=["Na", "Cl"], cell=np.eye(3) * 4.1, scaled_positions=[[0, 0, 0], [.5, .5, .5]])
        pa, pa_str = None, None
    elif spec["proto"] == "shear":
        cell = PhonopyAtoms(symbols=["Na", "Cl"], cell=[[4.0, 0.0, 0.0], [2.0, 3.6, 0.0], [0.4, 1.1, 6.8]], scaled_positions=[[0, 0, 0], [.5, .46, .52]])
        pa, pa_str = None, None
    else:
        cell = PhonopyAtoms(symbols=["Na", "Cl"], cell=[[4.0, 0.2, 0.0], [0.1, 4.3, 0.3], [0.2, 0.0, 4.9]], scaled_positions=[[0, 0, 0], [.5, .47, .53]])
        pa, pa_str = None, None
    calc = spec["calc"]
    units = get_default_physical_units(calc)
    if calc == "qe":
        from gen import calc_templates as T

        open(os.path.join(d, "unitcell.in"), "w").write(T.qe_template(cell))
        cellfile = "unitcell.in"
    else:
        write_crystal_structure(os.path.join(d, "POSCAR"), cell, interface_mode="vasp")
        cellfile = "POSCAR"
    ph = Phonopy(cell, supercell_matrix=np.diag(spec["dim"]), primitive_matrix=pa, factor=units["factor"], calculator=calc, log_level=0)
    fc = springs_fc(ph.supercell) * (1.0 if calc == "vasp" else 0.02)
    ph.generate_displacements(distance=0.03 if calc == "vasp" else 0.06)
    n = len(ph.supercell)
    forces = []
    for dd in ph.dataset["first_atoms"]:
        u = np.zeros((n, 3))
        u[dd["number"]] = dd["displacement"]
        forces.append(-np.einsum("ijab,jb->ia", fc, u))
    ph.forces = forces
    write_FORCE_SETS(ph.dataset, filename=os.path.join(d, "FORCE_SETS"))
    if spec["nac"]:
        Zd = 1.1 + 0.2 * rng.random()
        eps = 2.3 + rng.random()
        with open(os.path.join(d, "BORN"), "w") as f:
            f.write("# epsilon and Z* of atoms 1 %d\n" % (5 if spec["proto"] == "nacl_f" else 2))
            f.write(("%.8f " * 9 + "\n") % tuple((np.eye(3) * eps).ravel()))
            f.write(("%.8f " * 9 + "\n") % tuple((np.eye(3) * Zd).ravel()))
            f.write(("%.8f " * 9 + "\n") % tuple((-np.eye(3) * Zd).ravel()))
    return ph, cellfile, pa_str, spec


def lib_reference(spec, d, cellfile, pa):
    """Library object built from the same files the commands read."""
    import phonopy

    cwd = os.getcwd()
    os.chdir(d)
    try:
        # mirror the documented defaults of the two commands: phonopy-load symmetrises force constants, phonopy does not
        pa_lib = spec["load_pa"] if (spec["cmd"] == "phonopy-load" and spec.get("load_pa")) else pa
        ph = phonopy.load(unitcell_filename=cellfile, supercell_matrix=np.diag(spec["dim"]), primitive_matrix=pa_lib, calculator=spec["calc"],
                          is_nac=spec["nac"], fc_calculator="traditional", is_compact_fc=False, symmetrize_fc=(spec["cmd"] == "phonopy-load"),
                          log_level=0)
    finally:
        os.chdir(cwd)
    return ph


def _yaml(path):
    import yaml

    with open(path) as f:
        return yaml.safe_load(f)


def run_workflow(spec):
    td = tempfile.mkdtemp(prefix="c18-", dir=os.environ.get("VERIF_TMP", "/var/tmp"))
    try:
        return _run_workflow(spec, td)
    finally:
        shutil.rmtree(td, ignore_errors=True)


def _common_args(spec, cellfile, pa, use_load):
    a = []
    # with phonopy-load the calculator is recorded in the yaml file; naming it again on the command line is optional
    if spec["calc"] == "qe" and (not use_load or spec.get("explicit_calc", True)):
        a += ["--qe"]
    if use_load:
        a += ["--fc-calc", "traditional"]
        if spec.get("load_pa"):
            a += ["--pa", spec["load_pa"]]
    else:
        a += ["--dim"] + [str(x) for x in spec["dim"]]
        if pa:
            a += ["--pa", pa]
        a += ["-c", cellfile]
        if spec["nac"]:
            a += ["--nac"]
    return a


def _run_disp(spec, td, dA, cellfile, pa):
    """'phonopy -d' with the displacement settings given as options and as tags == Phonopy.generate_displacements with the same settings."""
    import phonopy

    cwd = os.getcwd()
    os.chdir(dA)
    try:
        lib = phonopy.load(unitcell_filename=cellfile, supercell_matrix=np.diag(spec["dim"]), primitive_matrix=pa, calculator=spec["calc"],
                           produce_fc=False, log_level=0)
    finally:
        os.chdir(cwd)
    pm = {"auto": "auto", "true": True, "false": False}[spec["pm"]]
    lib.generate_displacements(distance=float(spec["amp"]), is_plusminus=pm, is_diagonal=spec["diag"])
    want = np.array([[dd["number"]] + list(dd["displacement"]) for dd in lib.dataset["first_atoms"]])
    classes = ["mode:disp", "pm:" + spec["pm"], "diag:%s" % spec["diag"], "calc:" + spec["calc"], "proto:" + spec["proto"]]
    routes = {}
    conf = ["CREATE_DISPLACEMENTS = .TRUE.", "DIM = " + " ".join(str(x) for x in spec["dim"]), "CELL_FILENAME = " + cellfile, "DISPLACEMENT_DISTANCE = " + spec["amp"]] + \
        (["PRIMITIVE_AXES = " + pa] if pa else []) + ({"auto": [], "true": ["PM = .TRUE."], "false": ["PM = .FALSE."]}[spec["pm"]]) + \
        ([] if spec["diag"] else ["DIAG = .FALSE."])
    routes["tags"] = ((["--qe"] if spec["calc"] == "qe" else []) + ["p.conf"], conf)
    if spec["pm"] != "false":  # there is no option that switches plus-minus displacements off
        routes["options"] = ((["--qe"] if spec["calc"] == "qe" else []) + ["-d", "--dim"] + [str(x) for x in spec["dim"]] + (["--pa", pa] if pa else []) +
                             ["-c", cellfile, "--amplitude", spec["amp"]] + (["--pm"] if spec["pm"] == "true" else []) + ([] if spec["diag"] else ["--nodiag"]), None)
    for name, (argv, conf_lines) in routes.items():
        d = os.path.join(td, "disp_" + name)
        os.makedirs(d)
        shutil.copy(os.path.join(dA, cellfile), d)
        if conf_lines is not None:
            with open(os.path.join(d, "p.conf"), "w") as f:
                f.write("\n".join(conf_lines) + "\n")
        r = cli("phonopy", argv, d)
        if r.returncode != 0 or not os.path.exists(os.path.join(d, "phonopy_disp.yaml")):
            return Out(ok=False, classes=classes, msg="phonopy %s failed (%s route): rc %s\n%s" % (" ".join(argv), name, r.returncode, (r.stdout + r.stderr)[-800:]))
        y = _yaml(os.path.join(d, "phonopy_disp.yaml"))
        got = np.array([[dd["atom"] - 1] + list(dd["displacement"]) for dd in y["displacements"]])
        if got.shape != want.shape or np.abs(got - want).max() > 1e-12:
            return Out(ok=False, classes=classes, msg="'phonopy -d' (%s route: %s) wrote %d displacements, Phonopy.generate_displacements(distance=%s, is_plusminus=%r, "
                       "is_diagonal=%s) gives %d%s" % (name, conf_lines if conf_lines else " ".join(argv), len(got), spec["amp"], pm, spec["diag"], len(want),
                                                       "" if got.shape != want.shape else "; values differ by %.3e" % np.abs(got - want).max()))
    return Out(ok=True, nontrivial=spec["pm"] != "auto" or not spec["diag"], classes=classes)


def _run_magmom(spec, td, classes):
    """'phonopy -d' with MAGMOM: the MAGMOM file lists one moment per atom of SPOSCAR, in SPOSCAR's order. Oracle: every SPOSCAR atom is
    traced back to its unit-cell atom by its position; POSCAR and SPOSCAR are read by this function's own few lines."""
    syms = spec["magmom"].split()
    L = np.array([[4.0, 0.2, 0.0], [0.1, 4.3, 0.3], [0.2, 0.0, 4.9]])
    upos = np.array([[0, 0, 0], [0.5, 0.47, 0.53], [0.2, 0.8, 0.3]])[: len(syms)]
    moms = [1.0, -1.0, 0.5][: len(syms)]
    dim = spec["dim"]
    poscar = "gen\n1.0\n" + "\n".join(" ".join("%.16f" % x for x in r) for r in L) + "\n" + " ".join(syms) + "\n" + " ".join("1" for _ in syms) + \
        "\nDirect\n" + "\n".join(" ".join("%.16f" % x for x in r) for r in upos) + "\n"
    mtxt = " ".join("%g" % m for m in moms)
    routes = {"option": (["-d", "--dim"] + [str(x) for x in dim] + ["-c", "POSCAR", "--magmom", mtxt], None),
              "tag": (["p.conf"], ["CREATE_DISPLACEMENTS = .TRUE.", "DIM = " + " ".join(str(x) for x in dim), "MAGMOM = " + mtxt])}
    for name, (argv, conf) in routes.items():
        d = os.path.join(td, "magmom_" + name)
        os.makedirs(d)
        open(os.path.join(d, "POSCAR"), "w").write(poscar)
        if conf:
            open(os.path.join(d, "p.conf"), "w").write("\n".join(conf) + "\n")
        r = cli("phonopy", argv, d)
        if r.returncode != 0 or not os.path.exists(os.path.join(d, "SPOSCAR")) or not os.path.exists(os.path.join(d, "MAGMOM")):
            return Out(ok=False, classes=classes, msg="phonopy %s with moments failed or wrote no SPOSCAR/MAGMOM: rc %s\n%s" % (" ".join(argv), r.returncode, (r.stdout + r.stderr)[-600:]))
        lines = open(os.path.join(d, "SPOSCAR")).read().split("\n")
        counts = [int(x) for x in lines[6].split()]
        spos = np.array([[float(x) for x in ln.split()[:3]] for ln in lines[8:8 + sum(counts)]])
        ssyms = [sy for sy, c in zip(lines[5].split(), counts) for _ in range(c)]
        want = []
        for x, sy in zip(spos, ssyms):
            xu = x * np.array(dim, dtype=float)
            dd = xu[None, :] - upos
            dd -= np.rint(dd)
            k = int(np.argmin(np.abs(dd).max(axis=1)))
            if np.abs(dd[k]).max() > 1e-8 or syms[k] != sy:
                return Out(ok=False, classes=classes, msg="SPOSCAR atom %s %s is not an image of a unit-cell atom of that species" % (sy, x.tolist()))
            want.append(moms[k])
        txt = open(os.path.join(d, "MAGMOM")).read()
        got = [float(x) for x in txt.split("=")[1].split()]
        if len(got) != len(want) or np.abs(np.array(got) - np.array(want)).max() > 1e-12:
            return Out(ok=False, classes=classes, msg="MAGMOM file (%s route, POSCAR species line %r, moments %s, dim %s) lists %s; the atoms of SPOSCAR carry %s"
                       % (name, spec["magmom"], mtxt, dim, got, want))
    return None


def _run_workflow(spec, td):
    dA = os.path.join(td, "A")
    os.makedirs(dA)
    ph0, cellfile, pa, spec = make_inputs(spec, dA)
    if spec["mode"] == "disp":
        out = _run_disp(spec, td, dA, cellfile, pa)
        if out["ok"] and spec.get("magmom", "none") != "none" and spec["calc"] == "vasp":
            bad = _run_magmom(spec, td, out["classes"] + ["magmom:" + spec["magmom"]])
            if bad is not None:
                return bad
            out["classes"] = out["classes"] + ["magmom:" + spec["magmom"]]
        return out
    ref = lib_reference(spec, dA, cellfile, pa)
    use_load = spec["cmd"] == "phonopy-load"
    mode = spec["mode"]
    mesh = [str(x) for x in spec["mesh"]]
    classes = ["mode:" + mode, "cmd:" + spec["cmd"], "calc:" + spec["calc"], "nac" if spec["nac"] else "nonac", "proto:" + spec["proto"],
               "born_late" if spec.get("born_late") else "born_early", "load_pa:%s" % (spec.get("load_pa") if spec["cmd"] == "phonopy-load" else "n/a"), "calc_from_yaml" if (use_load and spec["calc"] == "qe" and not spec.get("explicit_calc", True)) else "calc_explicit_or_vasp"]
    if use_load:
        # phonopy-load reads a phonopy yaml: produce it with the -d step of the phonopy command. BORN may be computed only
        # after the displacements were created (then phonopy_disp.yaml carries no NAC section and BORN is read at run time)
        late = spec.get("born_late") and os.path.exists(os.path.join(dA, "BORN"))
        if late:
            os.rename(os.path.join(dA, "BORN"), os.path.join(td, "BORN.later"))
        r = cli("phonopy", (["--qe"] if spec["calc"] == "qe" else []) + ["-d", "--dim"] + [str(x) for x in spec["dim"]] + (["--pa", pa] if pa else []) +
                ["-c", cellfile, "--amplitude", "0.03" if spec["calc"] == "vasp" else "0.06"], dA)
        if r.returncode != 0 or not os.path.exists(os.path.join(dA, "phonopy_disp.yaml")):
            return Out(ok=False, msg="phonopy -d failed: rc %s\n%s" % (r.returncode, (r.stdout + r.stderr)[-800:]))
        disp = _yaml(os.path.join(dA, "phonopy_disp.yaml"))
        got = np.array([dd["displacement"] for dd in disp["displacements"]])
        want = np.array([dd["displacement"] for dd in ph0.dataset["first_atoms"]])
        if got.shape != want.shape or np.abs(got - want).max() > 1e-12:
            return Out(ok=False, msg="displacements created by 'phonopy -d' differ from Phonopy.generate_displacements()")
        if late:
            os.rename(os.path.join(td, "BORN.later"), os.path.join(dA, "BORN"))
        yamlin = ["phonopy_disp.yaml"]
    else:
        yamlin = []
    base = _common_args(spec, cellfile, pa, use_load)
    conf_lines = []
    if mode == "mesh_tprop":
        opts = ["--mesh"] + mesh + ["-t", "--tmin", str(spec["tmin"]), "--tmax", str(spec["tmax"]), "--tstep", str(spec["tstep"]), "--cutoff-freq", "0.05"]
        conf_lines = ["MESH = " + " ".join(mesh), "TPROP = .TRUE.", "TMIN = %s" % spec["tmin"], "TMAX = %s" % spec["tmax"], "TSTEP = %s" % spec["tstep"],
                      "CUTOFF_FREQUENCY = 0.05"]
        if spec["gamma_center"]:
            opts += ["--gc"]
            conf_lines += ["GAMMA_CENTER = .TRUE."]
    elif mode == "band":
        bp = str(spec.get("band_points", 5))
        opts = ["--band", "0 0 0 1/2 0 1/2 1/2 1/2 1/2", "--band-points", bp] + (["--eigvecs"] if spec["eigvecs"] else []) + \
            (["--band-const-interval"] if spec.get("band_const") else [])
        conf_lines = ["BAND = 0 0 0 1/2 0 1/2 1/2 1/2 1/2", "BAND_POINTS = " + bp] + (["EIGENVECTORS = .TRUE."] if spec["eigvecs"] else []) + \
            (["BAND_CONST_INTERVAL = .TRUE."] if spec.get("band_const") else [])
    elif mode == "qpoints":
        opts = ["--qpoints", "0.1 0.2 0.3 1/2 0 0 0 0 0"] + (["--q-direction", "1 0 0"] if spec["nac"] else []) + (["--eigvecs"] if spec["eigvecs"] else [])
        conf_lines = ["QPOINTS = 0.1 0.2 0.3 1/2 0 0 0 0 0"] + (["Q_DIRECTION = 1 0 0"] if spec["nac"] else []) + (["EIGENVECTORS = .TRUE."] if spec["eigvecs"] else [])
    elif mode in ("dos", "pdos"):
        fm = float(np.ceil(np.abs(ref.get_frequencies([0.5, 0.5, 0.5])).max() * 1.5 + 1))
        spec = dict(spec, dos_fmax=fm)
        win = ["--fmin", "-1", "--fmax", "%g" % fm, "--fpitch", "0.05"]
        winc = ["FMIN = -1", "FMAX = %g" % fm, "FPITCH = 0.05"]
        if mode == "dos":
            opts = ["--mesh"] + mesh + ["--dos"] + win + (["--sigma", str(spec["sigma"])] if spec["sigma"] else [])
            conf_lines = ["MESH = " + " ".join(mesh), "DOS = .TRUE."] + winc + (["SIGMA = %s" % spec["sigma"]] if spec["sigma"] else [])
        else:
            opts = ["--mesh"] + mesh + ["--pdos", "1, 2"] + win + (["--sigma", str(spec["sigma"])] if spec["sigma"] else [])
            conf_lines = ["MESH = " + " ".join(mesh), "PDOS = 1, 2"] + winc + (["SIGMA = %s" % spec["sigma"]] if spec["sigma"] else [])
    elif mode == "tdispmat":
        opts = ["--mesh"] + mesh + ["--tdm", "--tmin", str(spec["tmin"]), "--tmax", str(spec["tmax"]), "--tstep", str(spec["tstep"]), "--fmin", "0.05"]
        conf_lines = ["MESH = " + " ".join(mesh), "TDISPMAT = .TRUE.", "TMIN = %s" % spec["tmin"], "TMAX = %s" % spec["tmax"], "TSTEP = %s" % spec["tstep"],
                      "FMIN = 0.05"]
    elif mode == "tdisp":
        opts = ["--mesh"] + mesh + ["--td", "--tmin", str(spec["tmin"]), "--tmax", str(spec["tmax"]), "--tstep", str(spec["tstep"]), "--fmin", "0.05"]
        conf_lines = ["MESH = " + " ".join(mesh), "TDISP = .TRUE.", "TMIN = %s" % spec["tmin"], "TMAX = %s" % spec["tmax"], "TSTEP = %s" % spec["tstep"],
                      "FMIN = 0.05"]
    else:
        opts = ["--writefc", "--full-fc"]
        conf_lines = ["WRITE_FORCE_CONSTANTS = .TRUE.", "FULL_FORCE_CONSTANTS = .TRUE."]
    # route A: options
    r = cli(spec["cmd"], yamlin + base + opts, dA)
    if r.returncode != 0:
        return Out(ok=False, classes=classes, msg="%s %s failed: rc %s\n%s" % (spec["cmd"], " ".join(yamlin + base + opts), r.returncode, (r.stdout + r.stderr)[-1200:]))
    # route B: configuration file in a sibling directory with the same inputs
    dB = os.path.join(td, "B")
    os.makedirs(dB)
    for f in os.listdir(dA):
        if f in (cellfile, "FORCE_SETS", "BORN", "phonopy_disp.yaml"):
            shutil.copy(os.path.join(dA, f), dB)
    if use_load:
        confB = conf_lines + ["FC_CALCULATOR = traditional"] + (["PRIMITIVE_AXES = " + spec["load_pa"]] if spec.get("load_pa") else [])
        argvB = ["phonopy_disp.yaml", "--config", "p.conf"] + (["--qe"] if spec["calc"] == "qe" and spec.get("explicit_calc", True) else [])
    else:
        confB = conf_lines + ["DIM = " + " ".join(str(x) for x in spec["dim"]), "CELL_FILENAME = " + cellfile] + (["PRIMITIVE_AXES = " + pa] if pa else []) + \
            (["NAC = .TRUE."] if spec["nac"] else [])
        argvB = (["--qe"] if spec["calc"] == "qe" else []) + ["p.conf"]
    with open(os.path.join(dB, "p.conf"), "w") as f:
        f.write("\n".join(confB) + "\n")
    rB = cli(spec["cmd"], argvB, dB)
    if rB.returncode != 0:
        return Out(ok=False, classes=classes, msg="%s with configuration file failed: rc %s\nconf:\n%s\n%s" % (spec["cmd"], rB.returncode, "\n".join(confB), (rB.stdout + rB.stderr)[-1200:]))
    outfiles = {"mesh_tprop": ["thermal_properties.yaml", "mesh.yaml"], "band": ["band.yaml"], "qpoints": ["qpoints.yaml"], "dos": ["total_dos.dat"],
                "pdos": ["projected_dos.dat"], "tdisp": ["thermal_displacements.yaml"], "tdispmat": ["thermal_displacement_matrices.yaml"], "writefc_readfc": ["FORCE_CONSTANTS"]}[mode]
    for fn in outfiles:
        pa_, pb_ = os.path.join(dA, fn), os.path.join(dB, fn)
        if not os.path.exists(pa_) or not os.path.exists(pb_):
            return Out(ok=False, classes=classes, msg="output file %s missing (options: %s, conf: %s)" % (fn, os.path.exists(pa_), os.path.exists(pb_)))
        ta, tb = open(pa_).read(), open(pb_).read()
        if ta != tb:
            la, lb = ta.split("\n"), tb.split("\n")
            k = next((i for i, (x, y) in enumerate(zip(la, lb)) if x != y), min(len(la), len(lb)))
            return Out(ok=False, classes=classes, msg="%s differs between the option route and the configuration-file route (%s): line %d\n  options: %s\n  conf   : %s"
                       % (fn, spec["cmd"], k + 1, la[k][:160] if k < len(la) else "<eof>", lb[k][:160] if k < len(lb) else "<eof>"))
    # compare with the library
    err = compare_with_library(spec, ref, dA, mode)
    if err:
        return Out(ok=False, classes=classes, msg="%s (%s, %s): %s" % (mode, spec["cmd"], " ".join(opts), err))
    # the summary file reloads to the calculation that was run
    import phonopy

    cwd = os.getcwd()
    os.chdir(dA)
    try:
        p2 = phonopy.load("phonopy.yaml", log_level=0, is_compact_fc=False, fc_calculator="traditional")
    except Exception as e:
        return Out(ok=False, classes=classes, msg="phonopy.yaml written by %s does not reload: %r" % (spec["cmd"], e))
    finally:
        os.chdir(cwd)
    q = [0.13, 0.27, 0.41]
    f1, f2 = ref.get_frequencies(q), p2.get_frequencies(q)
    if np.abs(f1 - f2).max() > 1e-5 * max(1.0, np.abs(f1).max()):
        return Out(ok=False, classes=classes, msg="phonopy.yaml reloads to a different calculation: frequencies differ by %.3e (calculator %r vs %r, nac factor %r vs %r)"
                   % (np.abs(f1 - f2).max(), ref.calculator, p2.calculator, (ref.nac_params or {}).get("factor"), (p2.nac_params or {}).get("factor")))
    if mode == "band" and spec.get("band_labels", "none") != "none":
        # labelled paths, also disconnected ones: every segment carries the labels of its own two end points in band.yaml and band.hdf5
        variants = {"two_paths": ("0 0 0 1/2 0 1/2, 1/2 1/2 1/2 0 0 1/2", "G X R Z", [["G", "X"], ["R", "Z"]]),
                    "connected_then_jump": ("0 0 0 1/2 0 1/2 1/2 1/2 1/2, 0 0 1/2 0 0 0", "G X R Z G", [["G", "X"], ["X", "R"], ["Z", "G"]]),
                    "jump_then_connected": ("0 0 0 1/2 0 1/2, 1/2 1/2 1/2 0 0 1/2 0 0 0", "G X R Z G", [["G", "X"], ["R", "Z"], ["Z", "G"]])}
        bpath, blab, want_lab = variants[spec["band_labels"]]
        for fmt in ("yaml", "hdf5"):
            dl = os.path.join(td, "labels_" + fmt)
            os.makedirs(dl)
            for f in os.listdir(dA):
                if f in (cellfile, "FORCE_SETS", "BORN", "phonopy_disp.yaml"):
                    shutil.copy(os.path.join(dA, f), dl)
            argvL = yamlin + base + ["--band", bpath, "--band-labels", blab, "--band-points", "3"] + (["--hdf5"] if fmt == "hdf5" else [])
            rl = cli(spec["cmd"], argvL, dl)
            if rl.returncode != 0:
                return Out(ok=False, classes=classes, msg="%s %s failed: rc %s\n%s" % (spec["cmd"], " ".join(argvL), rl.returncode, (rl.stdout + rl.stderr)[-800:]))
            if fmt == "yaml":
                got_lab = [[str(x).strip("$") for x in pair] for pair in _yaml(os.path.join(dl, "band.yaml")).get("labels", [])]
            else:
                import h5py

                with h5py.File(os.path.join(dl, "band.hdf5"), "r") as h:
                    got_lab = [[(x.decode() if isinstance(x, bytes) else str(x)).strip("$") for x in pair] for pair in h["label"][:]]
            norm = [[x.replace("\\Gamma", "G").replace("\\mathrm{", "").replace("}", "") for x in pair] for pair in got_lab]
            if norm != want_lab:
                return Out(ok=False, classes=classes + ["band_labels:" + spec["band_labels"]],
                           msg="band.%s: labels of the path segments %s, the paths '%s' with labels '%s' have %s" % (fmt, got_lab, bpath, blab, want_lab))
        classes = classes + ["band_labels:" + spec["band_labels"]]
    if mode == "writefc_readfc":
        r3 = cli(spec["cmd"], yamlin + [a for a in base if a not in ("traditional", "--fc-calc")] + ["--readfc", "--qpoints", "0.13 0.27 0.41"], dA)
        if r3.returncode != 0:
            return Out(ok=False, classes=classes, msg="--readfc run failed: %s" % (r3.stdout + r3.stderr)[-800:])
        y = _yaml(os.path.join(dA, "qpoints.yaml"))
        fq = np.array([b["frequency"] for b in y["phonon"][0]["band"]])
        if np.abs(fq - f1).max() > 1e-6 * max(1.0, np.abs(f1).max()):
            return Out(ok=False, classes=classes, msg="--readfc gives different phonons than the run that wrote FORCE_CONSTANTS: %.3e" % np.abs(fq - f1).max())
    return Out(ok=True, nontrivial=True, classes=classes)


def freqs_differ(f_file, f_lib, half_ulp=6e-11):
    """Frequencies compared as eigenvalues (sqrt is not Lipschitz at 0: acoustic modes at Gamma are rounding noise ~1e-7 THz
    that differs between two processes), plus the printed precision."""
    f_file, f_lib = np.asarray(f_file, dtype=float), np.asarray(f_lib, dtype=float)
    if f_file.shape != f_lib.shape:
        return "shape %s vs %s" % (f_file.shape, f_lib.shape)
    fmax = max(np.abs(f_lib).max(), 1e-12)
    d = np.abs(f_file * np.abs(f_file) - f_lib * np.abs(f_lib))
    # the inputs (FORCE_SETS with 10 decimals, displacement 0.03) define the force constants to ~1e-8 relative only, and the
    # commands apply their own default symmetrisation/layout; agreement is asserted to 1e-6 of the eigenvalue scale
    lim = 1e-6 * fmax ** 2 + 2 * half_ulp * np.abs(f_lib) + half_ulp ** 2
    if (d > lim).any():
        k = np.unravel_index(np.argmax(d - lim), d.shape)
        return "frequency %r in the file, %r from the library" % (float(f_file[k]), float(f_lib[k]))
    return None


def compare_with_library(spec, ph, d, mode):
    mesh = spec["mesh"]
    if mode == "mesh_tprop":
        ph.run_mesh(mesh, is_gamma_center=spec["gamma_center"])
        ph.run_thermal_properties(t_min=spec["tmin"], t_max=spec["tmax"], t_step=spec["tstep"], cutoff_frequency=0.05)
        tp = ph.get_thermal_properties_dict()
        y = _yaml(os.path.join(d, "thermal_properties.yaml"))
        T = np.array([x["temperature"] for x in y["thermal_properties"]])
        if len(T) != len(tp["temperatures"]) or np.abs(T - tp["temperatures"]).max() > 1e-6:
            return "temperatures in thermal_properties.yaml %s differ from the library's %s" % (T.tolist(), tp["temperatures"].tolist())
        for k in ("free_energy", "entropy", "heat_capacity"):
            v = np.array([x[k] for x in y["thermal_properties"]])
            if np.abs(v - np.nan_to_num(tp[k])).max() > 2e-6 * max(1.0, np.abs(tp[k]).max()) + 6e-8:
                return "%s in thermal_properties.yaml differs from the library by %.3e" % (k, np.abs(v - tp[k]).max())
        my = _yaml(os.path.join(d, "mesh.yaml"))
        fq = np.array([[b["frequency"] for b in p["band"]] for p in my["phonon"]])
        w = np.array([p["weight"] for p in my["phonon"]])
        md = ph.get_mesh_dict()
        e = freqs_differ(fq, md["frequencies"])
        if e or not np.array_equal(w, md["weights"]):
            return "mesh.yaml differs from Phonopy.run_mesh: %s" % (e or "weights")
    elif mode == "band":
        from phonopy.phonon.band_structure import get_band_qpoints

        ends = [[[0, 0, 0], [.5, 0, .5], [.5, .5, .5]]]
        nbp = spec.get("band_points", 5)
        if spec.get("band_const"):
            # documented: similar q-spacing on every segment, reciprocal basis vectors in columns = inverse of the row-vector cell
            path = get_band_qpoints(ends, npoints=nbp, rec_lattice=np.linalg.inv(ph.primitive.cell))
        else:
            path = get_band_qpoints(ends, npoints=nbp)
        ph.run_band_structure(path, with_eigenvectors=spec["eigvecs"])
        bd = ph.get_band_structure_dict()
        by = _yaml(os.path.join(d, "band.yaml"))
        if list(by["segment_nqpoint"]) != [len(x) for x in path]:
            return "band.yaml segment_nqpoint %s, library path has %s points per segment (const interval %s)" % (by["segment_nqpoint"], [len(x) for x in path],
                                                                                                                  spec.get("band_const"))
        qy = np.array([p["q-position"] for p in by["phonon"]])
        if np.abs(qy - np.vstack(path)).max() > 1e-6:
            return "band.yaml q-positions differ from the library's band path by %.3e" % np.abs(qy - np.vstack(path)).max()
        fb = np.array([[b["frequency"] for b in p["band"]] for p in by["phonon"]])
        want = np.vstack(bd["frequencies"])
        e = freqs_differ(fb, want)
        if e:
            return "band.yaml frequencies differ from Phonopy.run_band_structure: %s" % e
    elif mode == "qpoints":
        qs = [[0.1, 0.2, 0.3], [0.5, 0, 0], [0, 0, 0]]
        ph.run_qpoints(qs, with_eigenvectors=spec["eigvecs"], nac_q_direction=[1, 0, 0] if spec["nac"] else None)
        qd = ph.get_qpoints_dict()
        y = _yaml(os.path.join(d, "qpoints.yaml"))
        fq = np.array([[b["frequency"] for b in p["band"]] for p in y["phonon"]])
        e = freqs_differ(fq, qd["frequencies"])
        if e:
            return "qpoints.yaml frequencies differ from Phonopy.run_qpoints: %s" % e
    elif mode in ("dos", "pdos"):
        if spec["sigma"] is None:
            # tetrahedron density: delta-like spikes on degenerate tetrahedra make a point-wise comparison between two processes
            # meaningless (see C11); the option/conf routes were already compared byte by byte
            return None
        ph.run_mesh(mesh, is_mesh_symmetry=(mode == "dos"), with_eigenvectors=(mode == "pdos"))
        if mode == "dos":
            ph.run_total_dos(sigma=spec["sigma"], use_tetrahedron_method=spec["sigma"] is None, freq_min=-1, freq_max=spec["dos_fmax"], freq_pitch=0.05)
            td = ph.get_total_dos_dict()
            dat = np.loadtxt(os.path.join(d, "total_dos.dat"))
            if dat.shape[0] != len(td["frequency_points"]) or np.abs(dat[:, 0] - td["frequency_points"]).max() > 1e-6 * max(1.0, np.abs(td["frequency_points"]).max()) or \
                    np.abs(dat[:, 1] - td["total_dos"]).max() > 1e-4 * max(1.0, np.abs(td["total_dos"]).max()):
                return "total_dos.dat differs from Phonopy.run_total_dos"
        else:
            ph.run_projected_dos(sigma=spec["sigma"], use_tetrahedron_method=spec["sigma"] is None, freq_min=-1, freq_max=spec["dos_fmax"], freq_pitch=0.05)
            pd = ph.get_projected_dos_dict()
            dat = np.loadtxt(os.path.join(d, "projected_dos.dat"))
            if dat.shape[0] != len(pd["frequency_points"]) or np.abs(dat[:, 0] - pd["frequency_points"]).max() > 1e-6 * max(1.0, np.abs(pd["frequency_points"]).max()):
                return "projected_dos.dat frequency points differ from the library"
            want = pd["projected_dos"]
            if dat.shape[1] - 1 == 2 and len(want) >= 2:
                groups = [[0], [1]]
                got = dat[:, 1:].T
                ref2 = np.array([want[g].sum(axis=0) for g in groups])
                if np.abs(got - ref2).max() > 1e-4 * max(1.0, np.abs(ref2).max()):
                    return "projected_dos.dat differs from Phonopy.run_projected_dos (pdos indices 1, 2)"
    elif mode == "tdispmat":
        ph.run_mesh(mesh, with_eigenvectors=True, is_mesh_symmetry=False)
        ph.run_thermal_displacement_matrices(t_min=spec["tmin"], t_max=spec["tmax"], t_step=spec["tstep"], freq_min=0.05)
        tdm = ph.get_thermal_displacement_matrices_dict()
        y = _yaml(os.path.join(d, "thermal_displacement_matrices.yaml"))
        T = np.array([x["temperature"] for x in y["thermal_displacement_matrices"]])
        if len(T) != len(tdm["temperatures"]) or np.abs(T - tdm["temperatures"]).max() > 1e-6:
            return "temperatures in thermal_displacement_matrices.yaml %s differ from the library's %s" % (T.tolist(), np.array(tdm["temperatures"]).tolist())
        for key, lib in (("displacement_matrices", tdm["thermal_displacement_matrices"]), ("displacement_matrices_cif", tdm.get("thermal_displacement_matrices_cif"))):
            if lib is None or key not in y["thermal_displacement_matrices"][0]:
                continue
            lib = np.asarray(lib).real
            # documented order of the six numbers per atom: xx, yy, zz, yz, xz, xy
            want = np.array([[[m[0, 0], m[1, 1], m[2, 2], m[1, 2], m[0, 2], m[0, 1]] for m in mats] for mats in lib])
            got = np.array([x[key] for x in y["thermal_displacement_matrices"]])
            if got.shape != want.shape or np.abs(got - want).max() > 0.51e-5 + 1e-6 * np.abs(want).max():
                return "%s in thermal_displacement_matrices.yaml differ from the library (order xx,yy,zz,yz,xz,xy) by %.3e" % (
                    key, np.abs(got - want).max() if got.shape == want.shape else -1)
    elif mode == "tdisp":
        ph.run_mesh(mesh, with_eigenvectors=True, is_mesh_symmetry=False)
        ph.run_thermal_displacements(t_min=spec["tmin"], t_max=spec["tmax"], t_step=spec["tstep"], freq_min=0.05)
        tdd = ph.get_thermal_displacements_dict()
        y = _yaml(os.path.join(d, "thermal_displacements.yaml"))
        T = np.array([x["temperature"] for x in y["thermal_displacements"]])
        if len(T) != len(tdd["temperatures"]) or np.abs(T - tdd["temperatures"]).max() > 1e-6:
            return "temperatures in thermal_displacements.yaml %s differ from the library's %s" % (T.tolist(), np.array(tdd["temperatures"]).tolist())
        v = np.array([np.ravel(x["displacements"]) for x in y["thermal_displacements"]])
        if np.abs(v - tdd["thermal_displacements"]).max() > 2e-6 * max(1e-3, np.abs(tdd["thermal_displacements"]).max()) + 6e-8:
            return "thermal_displacements.yaml differs from the library by %.3e" % np.abs(v - tdd["thermal_displacements"]).max()
    else:
        from phonopy.file_IO import parse_FORCE_CONSTANTS

        fc = parse_FORCE_CONSTANTS(os.path.join(d, "FORCE_CONSTANTS"))
        if fc.shape != ph.force_constants.shape or np.abs(fc - ph.force_constants).max() > 1e-6 * np.abs(ph.force_constants).max():
            return "FORCE_CONSTANTS written by --writefc differs from the library's force constants"
    return None


SUBCHECKS = [
    Sub("tags", run=run_tags, strategy=tag_specs, examples={"quick": 2500, "thorough": 60000}, shards={"quick": 4, "thorough": 16}, builds=["omp"],
        what="every documented (option, tag) pair, both commands: configuration-file route and option route give the same Settings"),
    Sub("tags_mixed", run=run_tags_mixed, strategy=mixed_specs, examples={"quick": 4000, "thorough": 100000}, shards={"quick": 4, "thorough": 16}, builds=["omp"],
        what="2-4 documented settings at once: all as tags == all as options == any split between configuration file and command line"),
    Sub("tags_pairs", run=run_tags_mixed, enumerate=pair_specs, shards={"quick": 8, "thorough": 8}, builds=["omp"], budget={"quick": 200, "thorough": 600},
        what="EXHAUSTIVE: every pair of documented settings x both splits between configuration file and command line x both commands"),
    Sub("workflows", run=run_workflow, strategy=wf_specs, examples={"quick": 128, "thorough": 3000}, shards={"quick": 16, "thorough": 16}, builds=["omp"],
        budget={"quick": 150, "thorough": 3000},
        what="real command runs (options and conf file) vs library calls: -d, mesh/thermal, band, q-points, dos/pdos, thermal displacements, write/read fc, phonopy.yaml reload"),
]
