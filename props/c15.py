"""C15 A Phonopy object always answers from its current state, whatever its history."""
import copy
import itertools
import time
import zlib

import numpy as np

from oracles.models import dense_fc, springs_fc, sym_nac
from vlib.case import Out, Sub, jsonable, rng_from

PROPERTY = "C15"
TECHNIQUE = ("stateful property-based testing (Hypothesis RuleBasedStateMachine) + bounded-exhaustive enumeration of operation "
             "sequences; model = a freshly constructed object given the final state as the CALLER set it (masses, NAC parameters kept on the model side, "
             "never read back from the object under test)")
RULE = ("Histories over the state-changing API: force_constants= (full|compact, fresh array | non-owning view | list), "
        "produce_force_constants, symmetrize_force_constants(level), ..._by_space_group, set_force_constants_zero_with_radius, "
        "nac_params= (None|wang|gonze), masses= (random | one atom | 5e-7 relative change), dataset= / forces=, copy() followed by mutation of the copy; "
        "the cell object handed to the constructor is guarded; interleaved with queries (q-points with all "
        "outputs, mesh + thermal properties, random displacements) that populate caches; three small crystals; constructor "
        "variants (group_velocity_delta_q, is_symmetry). 'enum': ALL sequences of length <= 2 (quick) / <= 3 (thorough) over a "
        "canonical 22-letter alphabet, for the three dynamical-matrix classes. Non-trivial: >= 2 state changes of different "
        "kinds before the last query. Distinct by hash of the history.")
ASSUMPTIONS = [
    "force_constants handed in as an OWNED float64 C-contiguous array is documented to be shared and modified in place by the "
    "symmetrisers/cut-off; the no-modification rule is asserted for views, lists, datasets, forces, masses and NAC parameters",
    "the deprecated frequency_scale_factor constructor argument is exercised only in the dedicated sub-check scale_factor",
]

CELLS = {
    "tric2": dict(symbols=["Na", "Cl"], cell=[[3, 0, 0], [0.2, 3.1, 0], [0.1, 0.3, 3.3]], scaled_positions=[[0, 0, 0], [.5, .45, .52]], smat=[2, 1, 1]),
    "cscl": dict(symbols=["Na", "Cl"], cell=[[3.1, 0, 0], [0, 3.1, 0], [0, 0, 3.1]], scaled_positions=[[0, 0, 0], [.5, .5, .5]], smat=[2, 2, 1]),
    "wz": dict(symbols=["Ga", "Ga", "N", "N"], cell=[[3.2, 0, 0], [-1.6, 3.2 * np.sqrt(3) / 2, 0], [0, 0, 5.2]],
               scaled_positions=[[1 / 3, 2 / 3, 0], [2 / 3, 1 / 3, .5], [1 / 3, 2 / 3, .375], [2 / 3, 1 / 3, .875]], smat=[2, 1, 1]),
}
QS = [[0.1, 0.2, 0.3], [0.5, 0, 0], [0, 0, 0], [0.31, -0.12, 0.44], [1.25, 0.5, -0.25], [0, 0, 0.3],
      [0.25, 0.25, 0.5]]  # the last two: degenerate pairs; at (1/4,1/4,1/2) in cscl their velocities depend on how the degeneracy is lifted


def make(cellname, ctor):
    from phonopy import Phonopy
    from phonopy.structure.atoms import PhonopyAtoms

    c = CELLS[cellname]
    cell = PhonopyAtoms(symbols=c["symbols"], cell=c["cell"], scaled_positions=c["scaled_positions"])
    return Phonopy(cell, supercell_matrix=c["smat"], log_level=0, **ctor), cell


class Hist:
    """Deterministic interpreter of a history (list of step dicts) on a real Phonopy object."""

    def __init__(self, cellname, ctor):
        self.cellname, self.ctor = cellname, dict(ctor)
        self.ph, self.cell = make(cellname, ctor)
        self.guards = []  # (description, live array, snapshot)
        # model of what the caller has set (never read back from the object under test)
        self.model_masses = None  # None: the masses of the input cell
        self.model_nac = None
        self.model_dataset = None  # the dataset last handed in as a whole (None: not tracked)
        # the cell object handed to the constructor belongs to the caller
        self.cell_snapshot = {a: np.array(getattr(self.cell, a), copy=True) for a in ("cell", "scaled_positions", "masses")}
        self.kinds = []
        self.n_changes_before_query = 0
        self.log = []
        self.apply({"op": "set_fc", "key": 1, "layout": "full", "how": "array"})

    # ---- helpers
    def _guard(self, what, arr):
        self.guards.append((what, arr, np.array(arr, copy=True)))

    def probe(self, ph):
        nac = ph.nac_params is not None
        ph.run_qpoints(QS, with_dynamical_matrices=True, with_group_velocities=True, with_eigenvectors=True,
                       nac_q_direction=[1, 0, 0] if nac else None)
        d = ph.get_qpoints_dict()
        return d["dynamical_matrices"].copy(), d["group_velocities"].copy(), d["frequencies"].copy()

    def fresh(self):
        p, _ = make(self.cellname, self.ctor)
        if self.model_masses is not None:
            p.masses = np.array(self.model_masses, copy=True)
        if self.model_nac is not None:
            p.nac_params = copy.deepcopy(self.model_nac)
        p.force_constants = np.array(self.ph.force_constants, copy=True, order="C")
        return p

    # ---- operations
    def apply(self, step):
        ph = self.ph
        op = step["op"]
        rng = rng_from(step.get("key", 0))
        n = len(ph.supercell)
        p2s = ph.primitive.p2s_map
        self.log.append(step)
        if op == "set_fc":
            fc, _ = dense_fc(ph.supercell, rng) if step.get("model", "dense") == "dense" else (springs_fc(ph.supercell), 0)
            if step["layout"] == "compact":
                fc = np.array(fc[p2s], order="C")
            how = step.get("how", "array")
            if how == "view":
                store = np.zeros((2,) + fc.shape)
                store[0] = fc
                store[1] = 7.0
                self._guard("force-constant storage handed in as a non-owning view", store)  # snapshot BEFORE the hand-over
                ph.force_constants = store[0]
            elif how == "list":
                lst = fc.tolist()
                ph.force_constants = lst
            else:
                ph.force_constants = fc
        elif op == "produce":
            fc, _ = dense_fc(ph.supercell, rng)
            ph.generate_displacements(distance=0.02)
            self.model_dataset = None
            forces = []
            for d in ph.dataset["first_atoms"]:
                u = np.zeros((n, 3))
                u[d["number"]] = d["displacement"]
                forces.append(-np.einsum("ijab,jb->ia", fc, u))
            forces = np.array(forces)
            self._guard("forces array handed to the forces setter", forces)
            ph.forces = forces
            ph.produce_force_constants(calculate_full_force_constants=step.get("full", True))
        elif op == "dataset2":
            # type-2 dataset (displacements + forces arrays) replaces whatever was there
            fc, _ = dense_fc(ph.supercell, rng)
            nd = 3 * n + 2
            disps = rng.normal(size=(nd, n, 3)) * 0.01
            frc = -np.einsum("ijab,njb->nia", fc, disps)
            ds = {"displacements": disps, "forces": frc}
            self.model_dataset = None
            self._guard("displacements handed in through dataset=", disps)
            self._guard("forces handed in through dataset=", frc)
            ph.dataset = ds
            if step.get("produce", True):
                try:
                    ph.produce_force_constants(fc_calculator=None)
                except Exception as e:
                    if "symfc" in str(e).lower() or "alm" in str(e).lower() or isinstance(e, (ImportError, ModuleNotFoundError)):
                        return "skipped"  # type-2 solver needs an optional package that is absent
                    raise
        elif op == "dataset":
            # the displacement-force dataset is replaced as a whole: type 1 or 2, with or without forces / energies
            nd = int(step.get("n", 3))
            with_f, with_e = bool(step.get("forces", True)), bool(step.get("energies", False))
            if step.get("kind", "t2") == "t2":
                ds = {"displacements": rng.normal(size=(nd, n, 3)) * 0.01}
                if with_f:
                    ds["forces"] = rng.normal(size=(nd, n, 3))
                if with_e:
                    ds["supercell_energies"] = rng.normal(size=nd)
            else:
                ds = {"natom": n, "first_atoms": []}
                for k in range(nd):
                    e = {"number": int(rng.integers(0, n)), "displacement": rng.normal(size=3) * 0.01}
                    if with_f:
                        e["forces"] = rng.normal(size=(n, 3))
                    if with_e:
                        e["supercell_energy"] = float(rng.normal())
                    ds["first_atoms"].append(e)
            self.model_dataset = copy.deepcopy(ds)  # BEFORE the hand-over
            ph.dataset = ds
        elif op == "sym":
            ph.symmetrize_force_constants(level=step.get("level", 1), show_drift=False)
        elif op == "sym_sg":
            if ph.force_constants.shape[0] != ph.force_constants.shape[1]:
                return "skipped"
            ph.symmetrize_force_constants_by_space_group(show_drift=False)
        elif op == "cutoff":
            ph.set_force_constants_zero_with_radius(float(step.get("r", 3.0)))
        elif op == "nac":
            m = step["method"]
            if m == "none":
                ph.nac_params = None
                self.model_nac = None
            else:
                Z, eps = sym_nac(ph.primitive, rng)
                if step.get("data") == "drift":  # as computed: the acoustic sum rule is violated by a small common tensor
                    Z = Z + 0.05 * rng.normal(size=(3, 3))[None]
                elif step.get("data") == "raw":  # not symmetrised at all
                    Z = Z + 0.1 * rng.normal(size=Z.shape)
                    eps = eps + 0.05 * (lambda a: a + a.T)(rng.normal(size=(3, 3)))
                params = {"born": Z, "dielectric": eps, "factor": 14.4, "method": m}
                self.model_nac = copy.deepcopy(params)  # model and snapshots are taken BEFORE the object sees the data
                self._guard("Born charges handed in through nac_params=", Z)
                self._guard("dielectric tensor handed in through nac_params=", eps)
                ph.nac_params = params
        elif op == "nac_inplace":
            # the caller edits the dictionary the getter handed out and gives it back through the setter
            nac = ph.nac_params
            if nac is not None and self.model_nac is not None:
                Z, eps = sym_nac(ph.primitive, rng)
                model = copy.deepcopy(self.model_nac)
                if step.get("which", "born") == "born":
                    model["born"] = np.array(Z, copy=True)
                    nac["born"] = Z
                else:
                    model["dielectric"] = np.array(eps, copy=True)
                    nac["dielectric"] = eps
                self.model_nac = model
                ph.nac_params = nac
        elif op == "masses":
            cur = np.array(self.model_masses if self.model_masses is not None else self._prim_masses0(), dtype=float)
            how = step.get("how", "random")
            if how == "tiny":  # a change far below any 'close enough' tolerance is still a change
                m = cur * (1 + 5e-7 * (1 + np.arange(len(cur))))
            elif how == "one":
                m = cur.copy()
                m[-1] *= 1.0 + 1e-3
            else:
                m = rng.uniform(5, 50, size=len(ph.primitive))
            self.model_masses = np.array(m, copy=True)
            self._guard("masses handed to the masses setter", m)
            ph.masses = m
        elif op == "copy":
            before = self.probe(ph)
            cells_before = [np.array(c.masses, copy=True) for c in (ph.unitcell, ph.supercell, ph.primitive)]
            other = ph.copy()
            other.force_constants = np.array(ph.force_constants, copy=True) * 1.7
            other.masses = np.array(ph.masses) * 2.0
            after = self.probe(ph)
            if max(np.abs(a - b).max() for a, b in zip(before, after)) > 0:
                raise AssertionError("operating on copy() changed the original object")
            for name, c, m0 in zip(("unitcell", "supercell", "primitive"), (ph.unitcell, ph.supercell, ph.primitive), cells_before):
                if not np.array_equal(c.masses, m0):
                    raise AssertionError("setting masses on a copy() changed the masses of the original object's %s" % name)
            self.ph = ph.copy()
            self.model_dataset = None  # documented: copy() keeps the constructor parameters only
            self.ph.force_constants = np.array(ph.force_constants, copy=True)
            if ph.nac_params is not None:
                self.ph.nac_params = copy.deepcopy(ph.nac_params)
        elif op == "query_q":
            self.probe(ph)
            self.n_changes_before_query = len(set(self.kinds))
            return "query"
        elif op == "query_dir":
            # an earlier query with its own direction for the zone centre / for lifting degeneracies must not leak into later queries
            ph.run_qpoints(QS, with_group_velocities=True, with_eigenvectors=True, nac_q_direction=step.get("dir", [0.3, -0.5, 0.8]))
            self.n_changes_before_query = len(set(self.kinds))
            return "query"
        elif op == "query_mesh":
            ph.run_mesh([2, 2, 2], with_eigenvectors=step.get("ev", False), with_group_velocities=step.get("gv", False))
            ph.run_thermal_properties(t_min=0, t_max=300, t_step=150)
            self.n_changes_before_query = len(set(self.kinds))
            return "query"
        elif op == "query_getters":
            # arrays handed out must not alias mutable internal state
            for getter in ("masses",):
                arr = getattr(ph, getter)
                arr += 1000.0
            for cellobj in (ph.unitcell, ph.supercell, ph.primitive):
                for attr in ("cell", "scaled_positions", "masses", "positions"):
                    a = getattr(cellobj, attr)
                    a *= 3.0
            return "query"
        else:
            raise ValueError(op)
        self.kinds.append(op)
        return "change"

    def _prim_masses0(self):
        """masses of the primitive atoms as given by the caller's input cell (model side)"""
        ph = self.ph
        s2u = np.array(ph.supercell.s2u_map)
        u2u = {int(k): i for i, k in enumerate(ph.supercell.u2s_map)}
        return np.array([self.cell_snapshot["masses"][u2u[int(s2u[i])]] for i in ph.primitive.p2s_map], dtype=float)

    def _check_dataset(self):
        want, got = self.model_dataset, self.ph.dataset
        if "first_atoms" in want:
            if got is None or "first_atoms" not in got or len(got["first_atoms"]) != len(want["first_atoms"]) or got.get("natom") != want["natom"]:
                return "the dataset reported is not the type-1 dataset last set"
            for k, (a, b) in enumerate(zip(got["first_atoms"], want["first_atoms"])):
                if set(a) != set(b):
                    return "entry %d of the dataset has keys %s, the dataset last set has %s" % (k, sorted(a), sorted(b))
                for key in b:
                    if not np.array_equal(np.asarray(a[key]), np.asarray(b[key])):
                        return "entry %d of the dataset differs from the dataset last set in %r" % (k, key)
            wf = np.array([e["forces"] for e in want["first_atoms"]]) if "forces" in want["first_atoms"][0] else None
            we = np.array([e["supercell_energy"] for e in want["first_atoms"]]) if "supercell_energy" in want["first_atoms"][0] else None
        else:
            if got is None or set(got) != set(want):
                return "the dataset reported has keys %s, the dataset last set has %s" % (sorted(got) if got is not None else None, sorted(want))
            for key in want:
                if not np.array_equal(np.asarray(got[key]), want[key]):
                    return "the dataset reported differs from the dataset last set in %r" % key
            wf, we = want.get("forces"), want.get("supercell_energies")
        # the displaced supercells handed out belong to the dataset last set (asked for after every step, so that a stale copy shows)
        cells = self.ph.supercells_with_displacements
        sc = self.ph.supercell
        if "first_atoms" in want:
            wantpos = []
            for e in want["first_atoms"]:
                pos = np.array(sc.positions, copy=True)
                pos[e["number"]] += e["displacement"]
                wantpos.append(pos)
        else:
            wantpos = [np.array(sc.positions) + d for d in want["displacements"]]
        if cells is None or len(cells) != len(wantpos):
            return "%s displaced supercells handed out, the dataset last set describes %d" % ("no" if cells is None else len(cells), len(wantpos))
        Ls = np.array(sc.cell)
        for k, (c_, wp) in enumerate(zip(cells, wantpos)):
            d = (c_.positions - wp) @ np.linalg.inv(Ls)
            d -= np.rint(d)
            if np.abs(d @ Ls).max() > 1e-9:
                return "displaced supercell %d handed out differs from supercell + displacements of the dataset last set by %.3e Angstrom" % (k, np.abs(d @ Ls).max())
        for name, w, g in (("forces", wf, self.ph.forces), ("supercell_energies", we, self.ph.supercell_energies)):
            if (w is None) != (g is None):
                return "%s reported: %s; the dataset last set %s" % (name, "none" if g is None else "an array of shape %s" % (np.shape(g),),
                                                                     "has none" if w is None else "has them")
            if w is not None and not np.array_equal(np.asarray(g), w):
                return "%s reported differ from those of the dataset last set" % name
        return None

    def check(self):
        if self.model_dataset is not None:
            err = self._check_dataset()
            if err:
                return err
        want_m = self.model_masses if self.model_masses is not None else self._prim_masses0()
        if not np.array_equal(np.asarray(self.ph.masses, dtype=float), np.asarray(want_m, dtype=float)):
            return "masses reported by the object %s are not the masses last set %s" % (np.asarray(self.ph.masses).tolist(), np.asarray(want_m).tolist())
        for a_, snap in self.cell_snapshot.items():
            if not np.array_equal(np.asarray(getattr(self.cell, a_)), snap):
                return "the unit cell object handed to the constructor was modified (%s)" % a_
        a = self.probe(self.ph)
        b = self.probe(self.fresh())
        sc = max(np.abs(b[0]).max(), 1e-300)
        e = np.abs(a[0] - b[0]).max() / sc
        if e > 1e-9:
            return "dynamical matrices differ from a freshly constructed object given the current force constants, NAC parameters and masses: rel %.3e" % e
        lam_a = np.sign(a[2]) * a[2] ** 2
        lam_b = np.sign(b[2]) * b[2] ** 2
        if np.abs(lam_a - lam_b).max() > 1e-9 * max(np.abs(lam_b).max(), 1e-300):
            return "frequencies differ from a freshly constructed object"
        for i in range(len(QS)):
            f = b[2][i]
            gap = np.array([np.min(np.abs(np.delete(f, j) - f[j])) if len(f) > 1 else 1.0 for j in range(len(f))])
            ok = f > 5e-2  # degenerate modes included: both objects are asked the same question about the same matrix
            if ok.any() and np.abs(a[1][i][ok] - b[1][i][ok]).max() > 1e-6 * max(1.0, np.abs(b[1][i][ok]).max()):
                return "group velocities differ from a freshly constructed object: %.3e" % np.abs(a[1][i][ok] - b[1][i][ok]).max()
        for what, live, snap in self.guards:
            if not np.array_equal(live, snap):
                return "%s was modified (max change %.3e)" % (what, float(np.abs(np.asarray(live, dtype=float) - snap).max()))
        return None


def run_history(spec):
    """spec = {cell, ctor, steps}: execute and check after every step (replay entry point and enumeration worker)."""
    h = Hist(spec["cell"], spec.get("ctor", {}))
    nchange = 0
    for k, step in enumerate(spec["steps"]):
        try:
            r = h.apply(step)
        except AssertionError as e:
            return Out(ok=False, msg="after step %d %s: %s" % (k, step, e))
        if r == "change":
            nchange += 1
        err = h.check()
        if err:
            return Out(ok=False, msg="after steps %s: %s" % (jsonable(spec["steps"][: k + 1]), err))
    kinds = {s["op"] for s in spec["steps"] if not s["op"].startswith("query")}
    return Out(ok=True, nontrivial=len(kinds) >= 2, classes=["cell:" + spec["cell"]] + sorted("op:" + s["op"] for s in spec["steps"]))


ALPHABET = [
    {"op": "set_fc", "key": 3, "layout": "full", "how": "array"}, {"op": "set_fc", "key": 4, "layout": "compact", "how": "array"},
    {"op": "set_fc", "key": 5, "layout": "full", "how": "view"}, {"op": "produce", "key": 6, "full": True}, {"op": "produce", "key": 7, "full": False},
    {"op": "sym", "level": 1}, {"op": "sym_sg"}, {"op": "cutoff", "r": 3.4}, {"op": "nac", "method": "gonze", "key": 8},
    {"op": "nac", "method": "wang", "key": 9}, {"op": "nac", "method": "none"}, {"op": "masses", "key": 10}, {"op": "query_mesh", "ev": True, "gv": True},
    {"op": "masses", "key": 11, "how": "tiny"}, {"op": "copy"}, {"op": "query_dir", "dir": [0.3, -0.5, 0.8]},
    {"op": "nac", "method": "wang", "key": 12, "data": "drift"},
    {"op": "dataset", "kind": "t2", "key": 13, "n": 3, "forces": True, "energies": True}, {"op": "dataset", "kind": "t2", "key": 14, "n": 3, "forces": False},
    {"op": "dataset", "kind": "t1", "key": 15, "n": 3, "forces": True}, {"op": "dataset", "kind": "t1", "key": 16, "n": 2, "forces": False},
    {"op": "nac_inplace", "key": 17, "which": "born"},
]


def enum_specs(tier):
    maxlen = 2 if tier == "quick" else 3
    out = []
    for first_nac in ("none", "wang", "gonze"):
        pre = [] if first_nac == "none" else [{"op": "nac", "method": first_nac, "key": 2}]
        for L in range(1, maxlen + 1):
            for seq in itertools.product(range(len(ALPHABET)), repeat=L):
                cell, ctor = ("tric2" if (sum(seq) + L) % 2 else "wz"), {}
                if any(ALPHABET[i]["op"] == "query_dir" for i in seq):
                    # the cell with a q-point where the direction used to lift a degeneracy matters (and no symmetrisation hides it)
                    cell, ctor = "cscl", {"is_symmetry": False}
                out.append({"cell": cell, "ctor": ctor, "steps": pre + [{"op": "query_q"}] + [ALPHABET[i] for i in seq]})
    return out


def machine_shard(args, stats):
    """Hypothesis stateful run: rules draw steps, the invariant compares with a fresh object."""
    import hypothesis
    from hypothesis import HealthCheck, settings
    from hypothesis import strategies as st
    from hypothesis.stateful import RuleBasedStateMachine, initialize, invariant, rule, run_state_machine_as_test

    tier = args["tier"]
    keys_ = st.integers(0, 2**20)
    last = {"fail": None, "t_first": None}
    t_end = time.time() + float(args["budget"])
    shrink_secs = 40 if tier == "quick" else 240

    class Machine(RuleBasedStateMachine):
        def __init__(self):
            super().__init__()
            self.h = None
            self.spec = None
            self.err = None

        @initialize(cell=st.sampled_from(sorted(CELLS)), ctor=st.sampled_from([{}, {}, {"group_velocity_delta_q": 1e-4}, {"is_symmetry": False},
                                                                               {"store_dense_svecs": False}]))
        def init(self, cell, ctor):
            self.spec = {"cell": cell, "ctor": ctor, "steps": []}
            if last["fail"] is not None and time.time() - last["t_first"] > shrink_secs:
                # shrink budget used up: every further attempt is a no-op, Hypothesis stops shrinking quickly and its final
                # replay is reported as flaky, which is ignored because the best failing history is already recorded
                self.h = None
                return
            self.h = Hist(cell, ctor)

        def _do(self, step):
            if self.h is None:
                return
            if time.time() > t_end and last["fail"] is None:
                stats.budget_hit = True
                return
            if last["fail"] is not None and time.time() - last["t_first"] > shrink_secs:
                best = last["fail"][0]
                k = len(self.spec["steps"])
                if not (self.spec["cell"] == best["cell"] and self.spec["ctor"] == best["ctor"] and
                        jsonable(self.spec["steps"] + [step]) == best["steps"][: k + 1]):
                    self.spec["steps"].append({"op": "skipped_after_shrink_budget"})
                    return
            self.spec["steps"].append(step)
            try:
                self.h.apply(step)
            except AssertionError as e:
                self.err = str(e)

        @rule(key=keys_, layout=st.sampled_from(["full", "compact"]), how=st.sampled_from(["array", "array", "view", "list"]),
              model=st.sampled_from(["dense", "springs"]))
        def set_fc(self, key, layout, how, model):
            self._do({"op": "set_fc", "key": key, "layout": layout, "how": how, "model": model})

        @rule(key=keys_, full=st.booleans())
        def produce(self, key, full):
            self._do({"op": "produce", "key": key, "full": full})

        @rule(level=st.integers(1, 3))
        def sym(self, level):
            self._do({"op": "sym", "level": level})

        @rule(kind=st.sampled_from(["t1", "t2"]), key=keys_, n=st.integers(1, 4), forces=st.booleans(), energies=st.booleans())
        def dataset(self, kind, key, n, forces, energies):
            self._do({"op": "dataset", "kind": kind, "key": key, "n": n, "forces": forces, "energies": energies})

        @rule(key=keys_, which=st.sampled_from(["born", "dielectric"]))
        def nac_inplace(self, key, which):
            self._do({"op": "nac_inplace", "key": key, "which": which})

        @rule()
        def sym_sg(self):
            self._do({"op": "sym_sg"})

        @rule(r=st.sampled_from([2.5, 3.0, 3.4, 4.2, 6.0]))
        def cutoff(self, r):
            self._do({"op": "cutoff", "r": r})

        @rule(method=st.sampled_from(["none", "wang", "gonze", "gonze"]), key=keys_, data=st.sampled_from(["sym", "sym", "drift", "raw"]))
        def nac(self, method, key, data):
            self._do({"op": "nac", "method": method, "key": key, "data": data})

        @rule(d=st.lists(st.sampled_from([0.0, 1.0, -0.5, 0.3, 0.8]), min_size=3, max_size=3).filter(lambda v: any(v)))
        def query_dir(self, d):
            self._do({"op": "query_dir", "dir": d})

        @rule(key=keys_, how=st.sampled_from(["random", "random", "tiny", "one"]))
        def masses(self, key, how):
            self._do({"op": "masses", "key": key, "how": how})

        @rule()
        def copy_(self):
            self._do({"op": "copy"})

        @rule()
        def query_q(self):
            self._do({"op": "query_q"})

        @rule(ev=st.booleans(), gv=st.booleans())
        def query_mesh(self, ev, gv):
            self._do({"op": "query_mesh", "ev": ev, "gv": gv})

        @rule()
        def query_getters(self):
            self._do({"op": "query_getters"})

        @invariant()
        def agrees_with_fresh_object(self):
            if self.h is None:
                return
            if last["fail"] is not None and time.time() - last["t_first"] > shrink_secs and jsonable(self.spec) != last["fail"][0]:
                return  # shrink budget used up: only the best failing history found so far still counts
            err = self.err or self.h.check()
            if err:
                if last["fail"] is None:
                    last["t_first"] = time.time()
                last["fail"] = (jsonable(self.spec), err)
                raise AssertionError(err)

        def teardown(self):
            if self.h is not None and self.spec is not None and last["fail"] is None:
                from vlib.case import spec_hash

                stats.evaluations += 1
                kinds = {s["op"] for s in self.spec["steps"] if not s["op"].startswith("query")}
                for s in self.spec["steps"]:
                    stats.classes["op:" + s["op"]] += 1
                stats.classes["cell:" + self.spec["cell"]] += 1
                if len(kinds) >= 2 and any(s["op"].startswith("query") for s in self.spec["steps"]):
                    stats.nontrivial.add(spec_hash(self.spec))
                    if len(stats.samples) < 2 and len(self.spec["steps"]) >= 5:
                        stats.samples.append(jsonable(self.spec))

    hseed = zlib.crc32(("C15/machine/%s/%d" % (args["seed"], args["shard"])).encode())
    st_settings = settings(max_examples=int(args["examples"]), stateful_step_count=10 if tier == "quick" else 25, deadline=None, database=None,
                           suppress_health_check=list(HealthCheck), report_multiple_bugs=False, print_blob=False)
    try:
        run_state_machine_as_test(hypothesis.seed(hseed)(Machine), settings=st_settings)
    except AssertionError:
        pass
    except Exception as e:  # noqa: BLE001
        if last["fail"] is None:
            from vlib.case import passes_through_repo, short_tb

            if passes_through_repo(e):
                last["fail"] = ({"note": "exception escaped a rule"}, "unexpected exception from phonopy: %r\n%s" % (e, short_tb(e)))
            else:
                stats.harness_error = "machine: %r\n%s" % (e, short_tb(e, 12))
    if last["fail"] is not None:
        stats.failure = {"spec": last["fail"][0], "msg": "history %s: %s" % (last["fail"][0].get("steps"), last["fail"][1]), "info": None}


def sf_specs(tier):
    return [{"cell": c, "ctor": {"frequency_scale_factor": f}, "steps": [{"op": "query_q"}] + s}
            for c in ("tric2", "wz") for f in (1.1, 0.9)
            for s in ([ALPHABET[5]], [ALPHABET[7]], [ALPHABET[11]], [ALPHABET[8], ALPHABET[11]], [ALPHABET[0], ALPHABET[5]])]


class _HistMachineSub(Sub):
    pass


SUBCHECKS = [
    Sub("scale_factor", run=run_history, enumerate=sf_specs, shards={"quick": 4, "thorough": 4}, builds=["omp"],
        what="deprecated frequency_scale_factor constructor argument: state == fresh object after rebuild-triggering operations"),
    Sub("enum", run=run_history, enumerate=enum_specs, shards={"quick": 16, "thorough": 16}, builds=["omp", "omp", "omp", "serial"],
        budget={"quick": 200, "thorough": 3000}, what="ALL operation sequences up to length 2 (3 in thorough) x three NAC classes; state == fresh object after every step"),
    Sub("machine", run=run_history, custom=machine_shard, examples={"quick": 240, "thorough": 6000}, shards={"quick": 12, "thorough": 16},
        budget={"quick": 150, "thorough": 3000}, what="Hypothesis rule-based state machine: random histories with interleaved queries, aliasing guards on every array handed in"),
]
