"""C13 Compiled kernels match reference semantics, any thread count, memory-safe."""
import os
import pickle
import subprocess
import sys
import tempfile

import numpy as np
from hypothesis import strategies as st

from gen.crystals import build_crystal, crystal_specs, keys
from oracles.models import dense_fc, springs_fc, sym_nac
from vlib.case import Out, Sub, rng_from

PROPERTY = "C13"
TECHNIQUE = ("property-based scenario generation (Hypothesis) + record/replay of every compiled-kernel call: differential over "
             "thread counts (bitwise), OpenMP vs serial build, sanitizer (ASan+UBSan) build, canary buffers, glue dtype table "
             "parsed from c/_phonopy.cpp; every kernel compared with an independent statement of its semantics (vectorised numpy formulas in "
             "oracles/kernels.py, exhaustive image enumeration, exact divided differences, 4th-order difference quotient)")
RULE = ("A scenario = generated crystal (Hall/prototype/centred/P1, >= 2 species where NAC is used), supercell, options "
        "(dense/sparse shortest vectors, full/compact, NAC none|wang|gonze, mesh 2..4, symmetry on/off) driven through the "
        "public API so that the Python layer itself produces the argument tuples of all 19 kernels; up to 10 calls per "
        "kernel per scenario are recorded; one scenario in eight is a supercell of 130-300 atoms (constructor kernels only: size-dependent "
        "parallel regions). Each recorded call is a case. Non-trivial: outermost loop trip count >= 2 and "
        "output not all zero. Distinct by (kernel, hash of argument bytes).")
ASSUMPTIONS = [
    "OpenMP schedules are sampled (thread counts 1,2,3,4,8,16, repeats), not owned: a race needing a rare interleaving can be missed",
    "the real nanobind conversion layer is replaced by the stand-in header; the glue oracle checks dtype/contiguity of what the "
    "Python layer passes against the C types c/_phonopy.cpp casts to",
    "cross-build comparison (omp vs serial) uses 1e-13 relative tolerance; thread counts within one build are compared bitwise",
]
THREADS = (1, 2, 3, 4, 8, 16)
KERNELS = ["transform_dynmat_to_fc", "perm_trans_symmetrize_fc", "perm_trans_symmetrize_compact_fc", "transpose_compact_fc",
           "dynamical_matrices_with_dd_openmp_over_qpoints", "recip_dipole_dipole", "recip_dipole_dipole_q0", "derivative_dynmat",
           "thermal_properties", "distribute_fc2", "compute_permutation", "gsv_set_smallest_vectors_sparse",
           "gsv_set_smallest_vectors_dense", "tetrahedra_relative_grid_address", "all_tetrahedra_relative_grid_address",
           "tetrahedra_integration_weight", "tetrahedra_integration_weight_at_omegas", "tetrahedra_frequencies", "tetrahedron_method_dos"]
REQUIRED_CLASSES = {"threads": ["k:" + k for k in KERNELS],
                    "reference": ["ref:" + k for k in KERNELS if k != "tetrahedra_integration_weight_at_omegas"]}


@st.composite
def scen_specs(draw, tier):
    cs = draw(crystal_specs(max_unit=4, kinds=("hall", "proto", "centred", "p1"), masses=True, noise=True))
    return {"crystal": cs, "key": draw(keys), "n": draw(st.sampled_from([[1, 1, 1], [2, 1, 1], [1, 1, 2], [2, 2, 1], [2, 2, 2], [3, 1, 1]])),
            "dense_svecs": draw(st.booleans()), "compact": draw(st.booleans()), "nac": draw(st.sampled_from(["none", "wang", "gonze"])),
            "mesh": draw(st.lists(st.integers(2, 4), min_size=3, max_size=3)), "ms": draw(st.booleans()),
            "pmat": draw(st.sampled_from(["none", "auto"])),
            # now and then a supercell of a few hundred atoms: only the kernels of the constructor (size-dependent parallel regions)
            "big": draw(st.sampled_from([0] * 7 + [1])),
            "fclayout": draw(st.sampled_from(["array", "array", "fortran", "strided", "list"]))}


def scenario(spec, recorder):
    """Drive the public API so that every kernel is reached with arguments built by phonopy itself."""
    from phonopy import Phonopy
    from phonopy.harmonic.derivative_dynmat import DerivativeOfDynamicalMatrix
    from phonopy.harmonic.dynmat_to_fc import DynmatToForceConstants
    from phonopy.harmonic.force_constants import show_drift_force_constants
    from phonopy.phonon.tetrahedron_mesh import TetrahedronMesh
    from phonopy.structure.tetrahedron_method import get_all_tetrahedra_relative_grid_address

    c = build_crystal(spec["crystal"])
    if c is None:
        return None
    cell = c["cell"]
    if spec.get("big"):
        k = 2
        while len(cell) * k ** 3 < 130:
            k += 1
        recorder.install()
        try:
            try:
                return Phonopy(cell, supercell_matrix=np.diag([k, k, k]), primitive_matrix=None if spec["pmat"] == "none" else "auto",
                               store_dense_svecs=spec["dense_svecs"], log_level=0)
            except RuntimeError:
                return None
        finally:
            recorder.uninstall()
    if len(cell) * int(np.prod(spec["n"])) > 40:
        return None
    rng = rng_from(spec["key"])
    recorder.install()
    try:
        try:
            ph = Phonopy(cell, supercell_matrix=np.diag(spec["n"]), primitive_matrix=None if spec["pmat"] == "none" else "auto",
                         store_dense_svecs=spec["dense_svecs"], log_level=0)
        except RuntimeError:
            return None  # constructor rejects the cell / primitive-matrix combination (C04's subject)
        n = len(ph.supercell)
        fc, _ = dense_fc(ph.supercell, rng)
        ph.generate_displacements()
        forces = []
        for d in ph.dataset["first_atoms"]:
            u = np.zeros((n, 3))
            u[d["number"]] = d["displacement"]
            forces.append(-np.einsum("ijab,jb->ia", fc, u))
        ph.forces = forces
        ph.produce_force_constants(calculate_full_force_constants=not spec["compact"])
        ph.symmetrize_force_constants(level=2, show_drift=False)
        import contextlib
        import io

        with contextlib.redirect_stdout(io.StringIO()):
            show_drift_force_constants(ph.force_constants, primitive=ph.primitive)
        sfc = springs_fc(ph.supercell)
        from vlib.case import present

        ph.force_constants = present(np.array(sfc[ph.primitive.p2s_map], order="C") if spec["compact"] else sfc, spec.get("fclayout", "array"))
        if spec["nac"] != "none":
            Z, eps = sym_nac(ph.primitive, rng)
            ph.nac_params = {"born": Z, "dielectric": eps, "factor": 14.4, "method": spec["nac"]}
        ph.run_mesh(spec["mesh"], with_eigenvectors=True, with_group_velocities=True, is_mesh_symmetry=False)
        if float(np.ptp(ph.mesh.frequencies)) < 1e-3:
            return None  # flat (all-zero) spectrum: a lone atom whose only neighbours are its own images
        ph.run_thermal_properties(temperatures=[0, 0.3, 150, 600])  # 0.3 K: h nu / kT beyond 709 for ordinary optical modes
        ph.run_projected_dos(use_tetrahedron_method=True)
        ph.run_mesh(spec["mesh"], is_mesh_symmetry=spec["ms"])
        ph.run_total_dos(use_tetrahedron_method=True)
        ph.run_total_dos(use_tetrahedron_method=True, freq_min=float(np.abs(ph.mesh.frequencies).max()) + 0.3, freq_max=-0.2, freq_pitch=-0.37)  # descending points
        m = ph.mesh
        f = m.frequencies
        thm = TetrahedronMesh(ph.primitive, f, m.mesh_numbers, np.array(m.grid_address, dtype="int64"),
                              np.array(m.grid_mapping_table, dtype="int64"), m.ir_grid_points, lang="C")
        thm.set(value="J", frequency_points=np.linspace(float(f.min()) - 0.1, float(f.max()) + 0.1, 7), lang="C")
        for k, _iw in enumerate(thm):
            if k >= 3:
                break
        from phonopy.structure.tetrahedron_method import TetrahedronMethod

        tm = TetrahedronMethod(np.linalg.inv(ph.primitive.cell), mesh=m.mesh_numbers, lang="C")
        tw = rng.normal(size=(24, 4))
        tm.set_tetrahedra_omegas(tw)
        tm.run(0.123, value="I")
        get_all_tetrahedra_relative_grid_address(lang="C")
        q = rng.uniform(-0.5, 0.5, size=3)
        # also a q-point a few 1e-5 ... 1e-3 1/Angstrom away from the zone centre (just outside the kernels' 'q is zero' tolerance)
        qtiny = (rng.normal(size=3) * 10 ** rng.uniform(-4.3, -2.6)).tolist()
        ph.run_qpoints([q, [0, 0, 0], [0.5, 0, 0], qtiny], with_eigenvectors=True, with_dynamical_matrices=False,
                       nac_q_direction=[1, 0, 0] if spec["nac"] != "none" else None)
        ph.dynamical_matrix.run(qtiny)
        if spec["nac"] != "gonze":
            ddm = DerivativeOfDynamicalMatrix(ph.dynamical_matrix)
            ddm.run(q, lang="C")
        d2f = DynmatToForceConstants(ph.primitive, ph.supercell, is_full_fc=not spec["compact"], use_openmp=True)
        dms = []
        for qq in d2f.commensurate_points:
            ph.dynamical_matrix.run(qq)
            dms.append(ph.dynamical_matrix.dynamical_matrix.copy())
        d2f.dynamical_matrices = np.array(dms)
        d2f.run(lang="C")
        ph.symmetrize_force_constants_by_space_group(show_drift=False) if not spec["compact"] else None
    finally:
        recorder.uninstall()
    return ph


def _call(name, args):
    import phonopy._phonopy as phonoc

    a = [np.array(x, copy=True) if isinstance(x, np.ndarray) else x for x in args]
    r = getattr(phonoc, name)(*a)
    return a, r


def _same_bits(x, y):
    return x.shape == y.shape and x.dtype == y.dtype and x.tobytes() == y.tobytes()


def _rec_key(rec):
    import hashlib

    h = hashlib.sha1(rec["name"].encode())
    for a in rec["args"]:
        h.update(a.tobytes() if isinstance(a, np.ndarray) else repr(a).encode())
    return h.hexdigest()[:16]


def _nontrivial(rec):
    outs = [rec["after"][i] for i in range(len(rec["args"])) if isinstance(rec["after"][i], np.ndarray)
            and not _same_bits(rec["after"][i], rec["args"][i])]
    big = any(isinstance(a, np.ndarray) and a.ndim >= 1 and a.shape[0] >= 2 for a in rec["args"])
    return big and (bool(outs) or rec["ret"] is not None)


def run_threads(spec):
    from vlib import env
    from vlib.recorder import Recorder

    rec = Recorder(keep_per_kernel=8, canaries=True)
    ph = scenario(spec, rec)
    if ph is None:
        return Out(nontrivial=False, classes=["discarded"])
    if rec.issues:
        return Out(ok=False, msg="kernel call contract violated:\n  " + "\n  ".join(sorted(set(rec.issues))[:12]))
    keys_, classes = [], []
    for r in rec.records:
        ref = None
        for rep in range(2):
            for nt in THREADS:
                env.set_threads(nt)
                a, ret = _call(r["name"], r["args"])
                if ref is None:
                    ref = (a, ret, nt)
                    continue
                for i, (x, y) in enumerate(zip(a, ref[0])):
                    if isinstance(x, np.ndarray) and not _same_bits(x, y):
                        env.set_threads(4)
                        dmax = float(np.nanmax(np.abs(x.astype(float).ravel() - y.astype(float).ravel()))) if x.dtype.kind in "fi" else -1
                        return Out(ok=False, msg="kernel %s: output argument %d differs between %d and %d threads (repeat %d, max |diff| %.3e, "
                                   "shape %s)" % (r["name"], i, ref[2], nt, rep, dmax, x.shape))
                if ret != ref[1] and not (isinstance(ret, float) and np.isnan(ret) and np.isnan(ref[1])):
                    env.set_threads(4)
                    return Out(ok=False, msg="kernel %s: return value differs between %d and %d threads: %r vs %r" % (r["name"], ref[2], nt, ref[1], ret))
        # the recorded run (inside phonopy, whatever thread count) must agree too
        for i, (x, y) in enumerate(zip(ref[0], r["after"])):
            if isinstance(x, np.ndarray) and not _same_bits(x, y):
                env.set_threads(4)
                return Out(ok=False, msg="kernel %s: replay of the recorded call gives different output in argument %d" % (r["name"], i))
        if _nontrivial(r):
            keys_.append(_rec_key(r))
        classes.append("k:" + r["name"])
    env.set_threads(4)
    return Out(ok=True, nontrivial=bool(keys_), key=keys_, classes=sorted(set(classes)) + ["nac:" + spec["nac"]] + (["big_supercell"] if spec.get("big") else []),
               info={"n_cases": len(rec.records), "kernels": len(set(r["name"] for r in rec.records))})


def _run_other_build(build, records, threads=4, timeout=600):
    from vlib import build as B

    tmp = tempfile.mkdtemp(prefix="c13-", dir=os.environ.get("VERIF_TMP", "/var/tmp"))
    try:
        fin, fout = os.path.join(tmp, "in.pkl"), os.path.join(tmp, "out.pkl")
        with open(fin, "wb") as f:
            pickle.dump([{"name": r["name"], "args": r["args"]} for r in records], f)
        env = dict(os.environ)
        env["VERIF_BUILD"] = build
        if build == "asan":
            env.update(B.asan_env())
        else:
            env.pop("LD_PRELOAD", None)
        p = subprocess.run([sys.executable, "-m", "vlib.replay_calls", fin, fout, str(threads)], env=env, capture_output=True, text=True,
                           timeout=timeout, cwd=os.path.dirname(os.path.dirname(os.path.abspath(__file__))))
        outs = None
        if os.path.exists(fout):
            with open(fout, "rb") as f:
                outs = pickle.load(f)
        return p.returncode, (p.stdout + p.stderr), outs
    finally:
        import shutil

        shutil.rmtree(tmp, ignore_errors=True)


def run_builds(spec):
    from vlib.recorder import Recorder

    rec = Recorder(keep_per_kernel=4, canaries=False)
    ph = scenario(spec, rec)
    if ph is None:
        return Out(nontrivial=False, classes=["discarded"])
    keys_ = []
    for build in ("serial", "asan"):
        rc, log, outs = _run_other_build(build, rec.records, threads=3 if build == "asan" else 1)
        if build == "asan" and ("AddressSanitizer" in log or "runtime error:" in log or rc == 97):
            return Out(ok=False, msg="sanitizer report while replaying recorded kernel calls in the ASan/UBSan build:\n" + log[-2500:])
        if rc != 0 or outs is None:
            from vlib.worker import HarnessError

            raise HarnessError("replay in build %s failed (rc %s): %s" % (build, rc, log[-1500:]))
        for r, o in zip(rec.records, outs):
            for i, (x, y) in enumerate(zip(o["after"], r["after"])):
                if isinstance(x, np.ndarray) and isinstance(y, np.ndarray):
                    if x.dtype.kind in "iu":
                        bad = not np.array_equal(x, y)
                        d = 0.0
                    else:
                        xf, yf = x.astype(complex).ravel(), y.astype(complex).ravel()
                        sc = max(np.abs(yf).max() if yf.size else 0.0, 1e-300)
                        d = float(np.abs(xf - yf).max() / sc) if yf.size else 0.0
                        bad = not (d <= 1e-13) and not (np.isnan(xf) == np.isnan(yf)).all()
                        bad = bad or (d > 1e-13)
                    if bad:
                        return Out(ok=False, msg="kernel %s: output argument %d differs between the OpenMP build and the %s build (rel %.3e)"
                                   % (r["name"], i, build, d))
            if r["ret"] != o["ret"] and not (isinstance(o["ret"], float) and abs(o["ret"] - r["ret"]) <= 1e-13 * max(1.0, abs(r["ret"]))):
                return Out(ok=False, msg="kernel %s: return value differs between builds: %r vs %r" % (r["name"], r["ret"], o["ret"]))
    for r in rec.records:
        if _nontrivial(r):
            keys_.append(_rec_key(r))
    return Out(ok=True, nontrivial=bool(keys_), key=keys_, classes=["nac:" + spec["nac"]],
               info={"n_cases": len(rec.records), "kernels": len(set(r["name"] for r in rec.records))})


# ---------------------------------------------------------------- reference semantics per kernel

def ref_thermal_properties(args):
    props, temps, freqs, weights, cutoff, classical = args
    from phonopy.units import Kb

    out = np.array(props, copy=True)
    for j, T in enumerate(temps):
        if not T > 0:
            continue
        for i in range(freqs.shape[0]):
            for f in freqs[i]:
                if not f > cutoff:
                    continue
                x = f / (Kb * T)
                if classical:
                    F, S, C = Kb * T * np.log(x), Kb - Kb * np.log(x), Kb
                else:
                    l1 = np.log(-np.expm1(-x))
                    F = Kb * T * l1
                    S = Kb * (x * np.exp(-x) / (-np.expm1(-x)) - l1)
                    C = Kb * x * x * np.exp(-x) / np.expm1(-x) ** 2
                out[j] += np.array([F, S, C]) * weights[i]
    return {0: out}, 1e-8


def ref_compute_permutation(args):
    perm, lat, pos, rot_pos, symprec = args
    n = len(pos)
    out = np.full(n, -1, dtype=perm.dtype)
    found = True
    for i in range(n):
        d = pos - rot_pos[i]
        d -= np.rint(d)
        dist = np.sqrt(((d @ lat.T) ** 2).sum(axis=1))
        j = np.nonzero(dist < symprec)[0]
        # positions_a[perm[i]] == positions_b[i]
        if len(j) != 1:
            found = False
        else:
            out[i] = j[0]
    return ({0: out} if found else {}), 0, found


def ref_tetrahedra_frequencies(args):
    ft, gps, mesh, ga, gp_ir, rel, freqs = args
    out = np.array(ft, copy=True)
    order = np.array([1, mesh[0], mesh[0] * mesh[1]])
    for k, gp in enumerate(gps):
        for i, t in enumerate(rel):
            address = t + ga[gp]
            nb = np.dot(address % mesh, order)
            out[k, :, i, :] = freqs[gp_ir[nb]].T
    return {0: out}, 0


def ref_integration_weight(omega, tet, function):
    from fractions import Fraction as Fr

    from props.c11 import vertex_weight

    tot = 0.0
    for t in tet:
        if len(set(t.tolist())) < 4 or any(abs(omega - x) < 1e-9 for x in t):
            return None
        tot += float(vertex_weight([Fr(float(x)) for x in t], 0, Fr(float(omega)), function))
    return tot / 6 * 1.0


def ref_dos(args):
    dos, mesh, fpts, freqs, coef, ga, gmap, rel = args
    import phonopy._phonopy as phonoc

    out = np.zeros_like(dos)
    n_ir = freqs.shape[0]
    ir_points = [i for i in range(len(gmap)) if gmap[i] == i]
    gp2ir = {g: k for k, g in enumerate(ir_points)}
    weights = np.zeros(n_ir)
    for g in gmap:
        weights[gp2ir[g]] += 1
    order = np.array([1, mesh[0], mesh[0] * mesh[1]])
    for k, gp in enumerate(ir_points):
        idx = np.zeros((24, 4), dtype=int)
        for l in range(24):
            for q in range(4):
                idx[l, q] = gp2ir[gmap[np.dot((ga[gp] + rel[l][q]) % mesh, order)]]
        for b in range(freqs.shape[1]):
            tet = np.array(freqs[idx, b], dtype="double", order="C")
            for j, w in enumerate(fpts):
                iw = phonoc.tetrahedra_integration_weight(float(w), tet, "I") * weights[k]
                out[k, b, j, :] = iw * coef[k, :, b]
    return {0: out}, 1e-12


def ref_gsv(name, args, after):
    """Smallest-vector kernels against exhaustive image enumeration (oracle of C05)."""
    from oracles.lattice import TooExpensive
    from props.c05 import check_tables

    dense = name.endswith("dense")
    sfr, pfr, red_T, tmi_T = args[2], args[3], args[5], args[6]
    symprec = args[-1]
    if dense and args[7] == 1:
        return None  # first phase only counts
    red = red_T.T
    tmi = tmi_T.T.astype(float)
    L = np.linalg.inv(tmi) @ red  # supercell basis vectors (rows)
    ps, pp = sfr @ tmi, pfr @ tmi
    tabs = (after[0], after[1])
    try:
        err, mm = check_tables(L, ps, pp, tabs if dense else None, None if dense else tabs, symprec)
    except TooExpensive:
        return None
    return err


def _krefs():
    from oracles import kernels as K

    return {"dynamical_matrices_with_dd_openmp_over_qpoints": K.ref_dynamical_matrices, "recip_dipole_dipole": K.ref_recip_dipole_dipole,
            "recip_dipole_dipole_q0": K.ref_recip_dipole_dipole_q0, "derivative_dynmat": K.ref_derivative_dynmat,
            "transform_dynmat_to_fc": K.ref_transform_dynmat_to_fc, "perm_trans_symmetrize_fc": K.ref_perm_trans_symmetrize_fc,
            "perm_trans_symmetrize_compact_fc": K.ref_perm_trans_symmetrize_compact_fc, "transpose_compact_fc": K.ref_transpose_compact_fc,
            "distribute_fc2": K.ref_distribute_fc2}


KREFS = _krefs()


def run_reference(spec):
    from vlib.recorder import Recorder

    rec = Recorder(keep_per_kernel=6, canaries=False)
    ph = scenario(spec, rec)
    if ph is None:
        return Out(nontrivial=False, classes=["discarded"])
    keys_, classes = [], []
    checked = 0
    for r in rec.records:
        name, args, after = r["name"], r["args"], r["after"]
        got, floor = None, 0.0
        if name == "thermal_properties":
            want, tol = ref_thermal_properties(args)
        elif name == "compute_permutation":
            res = ref_compute_permutation(args)
            want, tol, found = res
            if bool(r["ret"]) != bool(found):
                # the C routine may legitimately fail where the tolerance test is ambiguous; only a wrong 'found' with a unique match is an error
                if found:
                    return Out(ok=False, msg="compute_permutation returned not-found although every atom has exactly one partner within symprec")
                continue
        elif name.startswith("gsv_set_smallest_vectors"):
            err = ref_gsv(name, args, after)
            if err:
                return Out(ok=False, msg="kernel %s: %s" % (name, err))
            checked += 1
            classes.append("ref:" + name)
            continue
        elif name == "tetrahedra_frequencies":
            want, tol = ref_tetrahedra_frequencies(args)
        elif name == "tetrahedron_method_dos":
            want, tol = ref_dos(args)
        elif name == "tetrahedra_integration_weight":
            ref = ref_integration_weight(args[0], args[1], args[2])
            if ref is None:
                continue
            if abs(ref - r["ret"]) > 1e-9 * max(1.0, abs(ref)):
                return Out(ok=False, msg="tetrahedra_integration_weight %r != divided-difference reference %r" % (r["ret"], ref))
            checked += 1
            classes.append("ref:" + name)
            continue
        elif name in ("tetrahedra_relative_grid_address", "all_tetrahedra_relative_grid_address"):
            from phonopy.structure.tetrahedron_method import get_all_tetrahedra_relative_grid_address

            allp = get_all_tetrahedra_relative_grid_address(lang="Py")

            def canon(T):
                return sorted(tuple(sorted(map(tuple, t))) for t in np.array(T).tolist())

            if name.startswith("all"):
                if [canon(x) for x in after[0]] != [canon(x) for x in allp] and sorted(canon(x) for x in after[0]) != sorted(canon(x) for x in allp):
                    return Out(ok=False, msg="all_tetrahedra_relative_grid_address differs from the Python dataset (as sets of tetrahedra)")
            else:
                if canon(after[0]) not in [canon(x) for x in allp]:
                    return Out(ok=False, msg="tetrahedra_relative_grid_address is none of the four main-diagonal datasets")
                # shortest main diagonal must be chosen
                rec_lat = args[1]
                diags = [np.linalg.norm(rec_lat @ np.array(d)) for d in ([1, 1, 1], [-1, 1, 1], [1, -1, 1], [1, 1, -1])]
                k = [canon(x) for x in allp].index(canon(after[0]))
                if diags[k] > min(diags) * (1 + 1e-10):
                    return Out(ok=False, msg="tetrahedra_relative_grid_address did not choose the shortest main diagonal")
            checked += 1
            classes.append("ref:" + name)
            continue
        elif name in KREFS:
            res = KREFS[name](args)
            if res is None:
                classes.append("ref_skipped:" + name)
                continue
            want, tol = res[0], res[1]
            floor = res[2] if len(res) > 2 else 0.0
        else:
            continue
        for i, w in want.items():
            got_i = after[i]
            if np.asarray(w).dtype.kind == "c" or got_i.dtype.kind == "c":
                g = got_i.reshape(-1) if got_i.dtype.kind == "c" else np.ascontiguousarray(got_i, dtype="double").reshape(-1).view("c16")
                wv = np.asarray(w, dtype=complex).reshape(-1)
            else:
                g, wv = got_i.astype(float).reshape(-1), np.asarray(w, dtype=float).reshape(-1)
            if g.shape != wv.shape:
                return Out(ok=False, msg="kernel %s: output argument %d has %d elements, reference %d" % (name, i, g.size, wv.size))
            sc = max(float(np.abs(wv).max()) if wv.size else 0.0, floor, 1e-300)
            d = float(np.abs(g - wv).max() / sc) if wv.size else 0.0
            if not d <= max(tol, 0.0) and not (tol == 0.0 and d == 0.0):
                return Out(ok=False, msg="kernel %s: output argument %d differs from the reference transcription: rel %.3e" % (name, i, d))
        checked += 1
        classes.append("ref:" + name)
        if _nontrivial(r):
            keys_.append(_rec_key(r))
    return Out(ok=True, nontrivial=bool(keys_), key=keys_, classes=sorted(set(classes)), info={"n_cases": checked})


SUBCHECKS = [
    Sub("threads", run=run_threads, strategy=scen_specs, examples={"quick": 60, "thorough": 1500}, shards={"quick": 6, "thorough": 12},
        builds=["omp"], budget={"quick": 120, "thorough": 2400},
        what="every recorded kernel call: bitwise identical for 1,2,3,4,8,16 threads x 2 repeats; canaries intact; inputs unmodified; dtype/contiguity match the glue"),
    Sub("builds", run=run_builds, strategy=scen_specs, examples={"quick": 18, "thorough": 400}, shards={"quick": 6, "thorough": 12},
        builds=["omp"], budget={"quick": 120, "thorough": 2400},
        what="recorded calls replayed in the serial build (equal to 1e-13) and in the ASan+UBSan build (no report, equal results)"),
    Sub("reference", run=run_reference, strategy=scen_specs, examples={"quick": 40, "thorough": 1000}, shards={"quick": 4, "thorough": 12},
        builds=["omp", "serial"], budget={"quick": 120, "thorough": 2400},
        what="every kernel vs an independent statement of its semantics (oracles/kernels.py vectorised formulas, C05 image enumeration, C11 divided differences, "
             "4th-order difference quotient for the derivative): all 19 kernels except integration_weight_at_omegas (covered through tetrahedron_method_dos and C11)"),
]
