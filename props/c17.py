"""C17 Calculator interfaces preserve the crystal and the physical units."""
import os
import shutil
import tempfile

import numpy as np
from hypothesis import strategies as st

from gen import calc_templates as T
from gen.crystals import keys
from oracles.models import springs_fc, sym_nac
from vlib.case import Out, Sub, rng_from

PROPERTY = "C17"
TECHNIQUE = ("exhaustive enumeration over the 16 calculator interfaces x property-based cells (Hypothesis): write/read round trips of "
             "structure files with a species-preserving bijection oracle; unit tables re-derived from base constants; one physical "
             "crystal re-expressed in every unit system; synthetic vasprun.xml files for the FORCE_SETS pairing clause")
RULE = ("Cells: triclinic lattices, 1-3 species grouped or interleaved, positions inside and outside [0,1) (negative Cartesian "
        "coordinates), lattice components up to 150 length units, optional magnetic moments where the format carries them. Each "
        "calculator is exercised through: generated complete input -> phonopy reader -> phonopy writer -> reader (auxiliary info "
        "never hand-built), generated cell -> writer -> reader, and every displaced supercell phonopy generates. Non-trivial: "
        "triclinic + interleaved species + >= 2 species. Distinct by (calculator, spec hash).")
ASSUMPTIONS = [
    "cp2k structure read/write needs cp2k_input_tools (absent): units only; the files written for CRYSTAL (.ext) and Fleur (inpgen "
    "without '! a1' comments) are not readable by phonopy's own readers (by design): geometry checked with our own minimal parsers",
    "documented re-attachment of headers is performed by the adapter (QE namelists, SIESTA species block)",
]

NOAUX = ["vasp", "abinit", "dftbp", "turbomole", "aims", "castep", "lammps", "pwmat"]
TEMPL = ["qe", "elk", "siesta", "abacus"]
ALL16 = ["abacus", "abinit", "aims", "castep", "cp2k", "crystal", "dftbp", "elk", "fleur", "lammps", "qe", "siesta", "turbomole", "vasp", "wien2k", "pwmat"]
GROUPING = {"vasp", "elk", "abacus"}  # formats that list atoms species by species (documented stable grouping)


class TmpCwd:
    def __enter__(self):
        self.cwd = os.getcwd()
        self.td = tempfile.mkdtemp(prefix="c17-", dir=os.environ.get("VERIF_TMP", "/var/tmp"))
        os.chdir(self.td)
        return self.td

    def __exit__(self, *a):
        os.chdir(self.cwd)
        shutil.rmtree(self.td, ignore_errors=True)


# absolute precision of each text format (half a unit of the last printed digit, in the file's own length unit / fractional)
FORMAT_TOL = {"abacus": 2e-6, "castep": 1e-9, "wien2k": 1e-6, "fleur": 1e-9, "lammps": 1e-9}


def same_crystal(a, b, tol=1e-7, allow_grouping=False):
    """None if b describes the same crystal as a (same metric, species-preserving bijection of atoms with equal fractional
    positions mod 1; identity order unless allow_grouping, then the stable grouping by first occurrence)."""
    Ga, Gb = a.cell @ a.cell.T, b.cell @ b.cell.T
    if np.abs(Ga - Gb).max() > tol * max(1.0, np.abs(Ga).max()):
        return "lattice metric differs by %.3e" % np.abs(Ga - Gb).max()
    if len(a) != len(b):
        return "number of atoms %d -> %d" % (len(a), len(b))
    sa, sb = [str(s) for s in a.symbols], [str(s) for s in b.symbols]
    order = list(range(len(a)))
    if allow_grouping:
        seen = []
        for s in sa:
            if s not in seen:
                seen.append(s)
        order = [i for s in seen for i in range(len(a)) if sa[i] == s]
    if [sa[i] for i in order] != sb:
        return "species order %s -> %s (expected %s)" % (sa, sb, [sa[i] for i in order])
    d = a.scaled_positions[order] - b.scaled_positions
    d -= np.rint(d)
    # compare in Cartesian length to be insensitive to the cell size
    dc = np.linalg.norm(d @ a.cell, axis=1).max() / max(1.0, np.linalg.norm(a.cell, axis=1).max())
    if dc > tol:
        return "atomic positions differ (relative to the cell size) by %.3e" % dc
    return None


@st.composite
def cell_specs(draw, tier):
    return {"key": draw(keys), "calc": draw(st.sampled_from(NOAUX + TEMPL + ["wien2k", "fleur", "crystal"])), "natom": draw(st.integers(1, 6)),
            "nspecies": draw(st.integers(1, 3)), "interleaved": draw(st.booleans()), "outside": draw(st.sampled_from([False, False, True, "edge"])),
            "size": draw(st.sampled_from([4.0, 4.0, 12.0, 60.0, 150.0])), "shear": draw(st.sampled_from([0.0, 0.15, 0.4])),
            "disp": draw(st.booleans()), "elk_scale": draw(st.sampled_from(["none", "scale", "scale123"])),
            "pwmat_moments": draw(st.sampled_from(["none", "collinear", "noncollinear"]))}


def make_cell(spec):
    from phonopy.structure.atoms import PhonopyAtoms

    rng = rng_from(spec["key"])
    for _ in range(20):
        L = (np.eye(3) + rng.normal(size=(3, 3)) * spec["shear"]) * spec["size"] * (0.8 + 0.4 * rng.random(3))[:, None]
        if np.linalg.det(L) > 0.3 * spec["size"] ** 3:
            break
    else:
        L = np.eye(3) * spec["size"]
    n = spec["natom"]
    pos = rng.random((n, 3))
    if spec["outside"] == "edge":
        # atoms next to a cell face that a small displacement carries across it (1.0003, -0.0002)
        pos = np.where(rng.random((n, 3)) < 0.5, 1.0 + rng.uniform(1e-6, 3e-3, size=(n, 3)), -rng.uniform(1e-6, 3e-3, size=(n, 3)))
        pos[:, 0] += np.linspace(0.0, 0.5, n, endpoint=False)  # keep atoms apart
        pos[:, 0] = np.where(pos[:, 0] > 1.2, pos[:, 0] - 1.0, pos[:, 0])
    elif spec["outside"]:
        pos = pos + rng.integers(-2, 3, size=(n, 3))
    pool = ["Na", "Cl", "O"][: spec["nspecies"]]
    if spec["interleaved"]:
        sym = [pool[i % len(pool)] for i in range(n)]
    else:
        sym = sorted([pool[i % len(pool)] for i in range(n)], key=pool.index)
    return PhonopyAtoms(symbols=sym, cell=L, scaled_positions=pos)


def roundtrip(calc, cell, info=None):
    """write -> (adapter) -> read. Returns (cell_read, error string or None)."""
    from phonopy.interface.calculator import read_crystal_structure, write_crystal_structure

    if calc == "turbomole":
        os.makedirs("tm", exist_ok=True)
        os.chdir("tm")
        try:
            write_crystal_structure(".", cell, interface_mode=calc)
            c2, _ = read_crystal_structure("control", interface_mode=calc)
        finally:
            os.chdir("..")
            shutil.rmtree("tm", ignore_errors=True)
        return c2
    fn = "struct_" + calc
    write_crystal_structure(fn, cell, interface_mode=calc, optional_structure_info=info)
    body = open(fn).read()
    if calc == "qe":
        open(fn, "w").write(T.qe_header(body + "\n", len(cell), len(set(cell.symbols))))
    elif calc == "siesta":
        open(fn, "w").write(T.siesta_header(body, cell))
    c2, _ = read_crystal_structure(fn, interface_mode=calc)
    return c2


def parse_crystal_ext(fn):
    """Minimal parser of CRYSTAL's .ext geometry: dimensionality/centring line, lattice (3 rows), nsym, identity op (4 rows),
    natoms, then 'Z x y z' in Cartesian Angstrom."""
    toks = open(fn).read().split("\n")
    lat = np.array([[float(x) for x in toks[i].split()] for i in (1, 2, 3)])
    nsym = int(toks[4].split()[0])
    k = 5 + 4 * nsym
    nat = int(toks[k].split()[0])
    zs, xyz = [], []
    for line in toks[k + 1:k + 1 + nat]:
        p = line.split()
        zs.append(int(p[0]) % 100)
        xyz.append([float(x) for x in p[1:4]])
    return lat, zs, np.array(xyz)


def parse_fleur_out(fn):
    """Minimal parser of the inpgen file phonopy writes: title, three lattice rows, lattice constant, scale row, blank, number of
    atoms, then 'id x y z' (fractional). (phonopy's own Fleur reader keys on '! a1' comments, which its writer does not emit.)"""
    ls = open(fn).read().split("\n")
    lat = np.array([[float(x) for x in ls[i].split()[:3]] for i in (1, 2, 3)])
    aa = float(ls[4].split()[0])
    sc = np.array([float(x) for x in ls[5].split()[:3]])
    k = 6
    while not ls[k].strip():
        k += 1
    nat = int(ls[k].split()[0])
    ids, pos = [], []
    for line in ls[k + 1:k + 1 + nat]:
        p = line.split()
        ids.append(p[0])
        pos.append([float(x) for x in p[1:4]])
    return lat * aa * sc[None, :], ids, np.array(pos)


def run_structure(spec):
    from phonopy.interface.calculator import read_crystal_structure, write_supercells_with_displacements

    calc = spec["calc"]
    cell = make_cell(spec)
    if calc == "pwmat" and spec.get("pwmat_moments", "none") != "none":
        # the PWmat writer adds a 'magnetic' / 'magnetic_xyz' section after the positions: the structure read back is still this cell
        mrng = rng_from(spec["key"] + 3)
        cell.magnetic_moments = np.round(mrng.normal(size=len(cell)), 3) if spec["pwmat_moments"] == "collinear" else np.round(mrng.normal(size=(len(cell), 3)), 3)
    classes = ["calc:" + calc, "size:%g" % spec["size"], "interleaved" if spec["interleaved"] else "grouped", ("outside_edge" if spec["outside"] == "edge" else "outside") if spec["outside"] else "inside"]
    if calc == "pwmat":
        classes.append("pwmat_moments:" + spec.get("pwmat_moments", "none"))
    with TmpCwd():
        try:
            generated_w2k = calc == "wien2k" and spec["key"] % 4 != 0
            if calc in T.SAMPLES and calc not in T.TEMPLATES and calc not in NOAUX and not generated_w2k:
                # repository sample input -> read -> write -> read
                f = T.SAMPLES[calc][spec["key"] % len(T.SAMPLES[calc])]
                c1, info = read_crystal_structure(f, interface_mode=calc)
                if calc == "crystal":
                    from phonopy.interface.calculator import write_crystal_structure

                    write_crystal_structure("out", c1, interface_mode=calc, optional_structure_info=info)
                    lat, zs, xyz = parse_crystal_ext("out.ext")
                    if np.abs(lat - c1.cell).max() > 1e-8 or np.abs(xyz - c1.positions).max() > 1e-8 or list(zs) != [int(z) for z in c1.numbers]:
                        return Out(ok=False, classes=classes, msg="CRYSTAL .ext written for %s does not contain the cell that was read" % os.path.basename(f))
                    return Out(ok=True, nontrivial=len(set(c1.symbols)) >= 1, classes=classes + ["sample"])
                if calc == "fleur":
                    from phonopy.interface.calculator import write_crystal_structure

                    write_crystal_structure("out", c1, interface_mode=calc, optional_structure_info=info)
                    lat, ids, pos = parse_fleur_out("out")
                    d = pos - c1.scaled_positions
                    d -= np.rint(d)
                    if np.abs(lat - c1.cell).max() > 1e-9 or np.abs(d).max() > 1e-9 or len(ids) != len(c1):
                        return Out(ok=False, classes=classes, msg="Fleur file written for %s does not contain the cell that was read" % os.path.basename(f))
                    return Out(ok=True, nontrivial=True, classes=classes + ["sample"])
                c2 = roundtrip(calc, c1, info)
                err = same_crystal(c1, c2, tol=max(1e-7, FORMAT_TOL.get(calc, 0.0)), allow_grouping=calc in GROUPING)
                if err:
                    return Out(ok=False, classes=classes, msg="%s: sample %s -> read -> write -> read: %s" % (calc, os.path.basename(f), err))
                return Out(ok=True, nontrivial=True, classes=classes + ["sample"])
            info = None
            c_in = cell
            if generated_w2k:
                # the auxiliary data a struct file carries per atom (radial mesh points, R0, RMT), as the reader would return them
                info = ("generated.struct", [781] * len(cell), [1e-4] * len(cell), [2.0] * len(cell))
                classes.append("generated_cell")
            if calc in T.TEMPLATES:
                if calc == "elk" and spec.get("elk_scale", "none") != "none":
                    # a user file with the documented scale / scale1-3 keywords (lattice vectors divided accordingly: the same crystal)
                    sc_ = 1.0 + (spec["key"] % 97) / 10.0
                    scale = sc_ if spec["elk_scale"] == "scale" else [sc_, 1.0 / sc_, 2.0 * sc_]
                    open("template", "w").write(T.elk_template(cell, scale=scale))
                    classes.append("elk_scale:" + spec["elk_scale"])
                else:
                    open("template", "w").write(T.TEMPLATES[calc](cell))
                c1, info = read_crystal_structure("template", interface_mode=calc)
                err = same_crystal(cell, c1, allow_grouping=calc in GROUPING)
                if err:
                    return Out(ok=False, classes=classes, msg="%s: generated input -> reader: %s" % (calc, err))
                c_in = c1 if spec["key"] % 2 else cell  # both the cell as read and the original (possibly interleaved) cell go to the writer
            c2 = roundtrip(calc, c_in, info)
            err = same_crystal(c_in, c2, tol=max(1e-7, FORMAT_TOL.get(calc, 0.0)), allow_grouping=calc in GROUPING)
            if err:
                return Out(ok=False, classes=classes, msg="%s: cell -> writer -> reader: %s (cell size %g, species %s, positions %s [0,1))"
                           % (calc, err, spec["size"], list(c_in.symbols), "outside" if spec["outside"] else "inside"))
            if spec["disp"] and calc not in ("turbomole",):
                from phonopy import Phonopy

                ph = Phonopy(c_in, supercell_matrix=[2, 1, 1], calculator=calc, log_level=0)
                ph.generate_displacements(distance=0.03)
                scs = ph.supercells_with_displacements[:3]
                write_supercells_with_displacements(calc, ph.supercell, scs, optional_structure_info=info,
                                                    additional_info={"supercell_matrix": ph.supercell_matrix})
                import glob

                files = sorted(f for f in glob.glob("*") if ("-00" in f or "_00" in f) and not f.endswith(".yaml"))
                files = [f for f in files if "001" in f or "002" in f or "003" in f][: len(scs)]
                if len(files) < len(scs):
                    return Out(ok=False, classes=classes, msg="%s: %d displaced supercells generated, files found: %s" % (calc, len(scs), sorted(glob.glob("*"))))
                for f, sc in zip(files, scs):
                    body = open(f).read()
                    if calc == "qe":
                        open(f, "w").write(T.qe_header(body + "\n", len(sc), len(set(sc.symbols))))
                    elif calc == "siesta":
                        open(f, "w").write(T.siesta_header(body, sc))
                    c3, _ = read_crystal_structure(f, interface_mode=calc)
                    err = same_crystal(sc, c3, tol=max(2e-7, FORMAT_TOL.get(calc, 0.0)), allow_grouping=calc in GROUPING)
                    if err:
                        return Out(ok=False, classes=classes, msg="%s: displaced supercell file %s read back: %s" % (calc, f, err))
        except Exception as e:
            from vlib.case import short_tb

            return Out(ok=False, classes=classes, msg="%s: structure round trip raised %r\n%s" % (calc, e, short_tb(e)))
    nt = spec["shear"] > 0 and spec["interleaved"] and len(set(cell.symbols)) >= 2
    return Out(ok=True, nontrivial=bool(nt) or calc in ("wien2k", "fleur", "crystal"), classes=classes)


# ------------------------------------------------------------------------- units

FC_UNITS = {"eV/angstrom^2": ("eV", ("angstrom", "angstrom")), "eV/angstrom.au": ("eV", ("angstrom", "au")), "Ry/au^2": ("Ry", ("au", "au")),
            "mRy/au^2": ("mRy", ("au", "au")), "hartree/au^2": ("hartree", ("au", "au")), "hartree/angstrom.au": ("hartree", ("angstrom", "au"))}


def unit_specs(tier):
    return [{"calc": c} for c in ALL16 + [None]]


def run_units(spec):
    from phonopy.interface.calculator import get_default_physical_units, get_force_constant_conversion_factor
    from phonopy.units import AMU, EV, Angstrom, Bohr, Hartree, Rydberg

    calc = spec["calc"]
    u = get_default_physical_units(calc)
    e_unit, l_units = FC_UNITS[u["force_constants_unit"]]
    en = {"eV": 1.0, "Ry": Rydberg, "mRy": Rydberg / 1000, "hartree": Hartree}[e_unit]  # in eV
    ln = {"angstrom": 1.0, "au": Bohr}  # in Angstrom
    fcu = en / (ln[l_units[0]] * ln[l_units[1]])  # force-constant unit in eV/Angstrom^2
    want_factor = np.sqrt(fcu * EV / Angstrom ** 2 / AMU) / (2 * np.pi) / 1e12
    if abs(u["factor"] - want_factor) > 1e-10 * want_factor:
        return Out(ok=False, msg="%s: frequency factor %r, sqrt(fc unit / AMU)/2pi in THz is %r" % (calc, u["factor"], want_factor))
    if u["length_unit"] not in ln or abs(u["distance_to_A"] - ln[u["length_unit"]]) > 1e-12:
        return Out(ok=False, msg="%s: distance_to_A %r inconsistent with length unit %s" % (calc, u["distance_to_A"], u["length_unit"]))
    L = ln[u["length_unit"]]
    want_nac = Hartree * Bohr / (fcu * L ** 3)
    if u["nac_factor"] is not None and abs(u["nac_factor"] - want_nac) > 1e-10 * want_nac:
        return Out(ok=False, msg="%s: nac_factor %r, e^2/(4 pi eps0) in (force-constant unit x length unit^3) is %r (units %s, %s)"
                   % (calc, u["nac_factor"], want_nac, u["force_constants_unit"], u["length_unit"]))
    for other, (e2, l2) in FC_UNITS.items():
        f2 = {"eV": 1.0, "Ry": Rydberg, "mRy": Rydberg / 1000, "hartree": Hartree}[e2] / (ln[l2[0]] * ln[l2[1]])
        got = get_force_constant_conversion_factor(other, calc)
        if abs(got - f2 / fcu) > 1e-12 * (f2 / fcu):
            return Out(ok=False, msg="%s: conversion factor from %s is %r, expected %r" % (calc, other, got, f2 / fcu))
    if u.get("force_to_eVperA") is not None:
        fu = {"eV/angstrom": 1.0, "Ry/au": Rydberg / Bohr, "mRy/au": Rydberg / Bohr / 1000, "hartree/au": Hartree / Bohr}[u["force_unit"]]
        if abs(u["force_to_eVperA"] - fu) > 1e-12 * fu:
            return Out(ok=False, msg="%s: force_to_eVperA %r inconsistent with force unit %s" % (calc, u["force_to_eVperA"], u["force_unit"]))
    return Out(ok=True, nontrivial=True, classes=["calc:%s" % calc])


@st.composite
def e2e_specs(draw, tier):
    return {"key": draw(keys), "calc": draw(st.sampled_from([c for c in ALL16])), "via": draw(st.sampled_from(["ctor", "load"])),
            "nac": draw(st.sampled_from(["none", "wang", "gonze"]))}


def run_end_to_end(spec):
    """One physical crystal (Angstrom, eV) re-expressed in the calculator's units gives the same THz frequencies."""
    import phonopy
    from phonopy import Phonopy
    from phonopy.interface.calculator import get_default_physical_units
    from phonopy.structure.atoms import PhonopyAtoms
    from phonopy.units import Bohr, Hartree, Rydberg

    calc = spec["calc"]
    rng = rng_from(spec["key"])
    L = np.array([[4.2, 0.2, 0.0], [0.1, 4.6, 0.3], [0.2, 0.0, 5.1]])
    pos = np.array([[0.0, 0.0, 0.0], [0.5, 0.48, 0.53]])
    ref = Phonopy(PhonopyAtoms(symbols=["Na", "Cl"], cell=L, scaled_positions=pos), supercell_matrix=[2, 1, 1], log_level=0)
    fc = springs_fc(ref.supercell)
    ref.force_constants = fc
    nacp = None
    u = get_default_physical_units(calc)
    if spec["nac"] != "none" and u["nac_factor"] is not None:
        Zb, eps = sym_nac(ref.primitive, rng)
        nacp = {"born": Zb, "dielectric": eps, "method": spec["nac"]}
        ref.nac_params = dict(nacp, factor=get_default_physical_units("vasp")["nac_factor"])
    qs = [[0.13, 0.27, 0.41], [0.5, 0.0, 0.0], [0.0, 0.0, 0.0]]
    ref.run_qpoints(qs, nac_q_direction=[1, 0, 0] if nacp else None)
    f_ref = ref.get_qpoints_dict()["frequencies"]
    ref.run_mesh([3, 3, 3])
    ref.run_thermal_properties(t_min=0, t_max=600, t_step=300, cutoff_frequency=1e-3)
    tp_ref = ref.get_thermal_properties_dict()
    # re-express
    e_unit, l_units = FC_UNITS[u["force_constants_unit"]]
    en = {"eV": 1.0, "Ry": Rydberg, "mRy": Rydberg / 1000, "hartree": Hartree}[e_unit]
    ln = {"angstrom": 1.0, "au": Bohr}
    fcu = en / (ln[l_units[0]] * ln[l_units[1]])
    Lu = ln[u["length_unit"]]
    cell_u = PhonopyAtoms(symbols=["Na", "Cl"], cell=L / Lu, scaled_positions=pos)
    with TmpCwd():
        if spec["via"] == "ctor":
            ph = Phonopy(cell_u, supercell_matrix=[2, 1, 1], factor=u["factor"], calculator=calc, log_level=0)
            ph.force_constants = fc / fcu
            if nacp:
                ph.nac_params = dict(nacp, factor=u["nac_factor"])
        else:
            tmp = Phonopy(cell_u, supercell_matrix=[2, 1, 1], factor=u["factor"], calculator=calc, log_level=0)
            tmp.force_constants = fc / fcu
            if nacp:
                tmp.nac_params = dict(nacp, factor=u["nac_factor"])
            tmp.save("p.yaml", settings={"force_constants": True})
            # the calculator is known only from the file: load() must pick that calculator's default units
            ph = phonopy.load("p.yaml", is_compact_fc=False, log_level=0)
            if ph.calculator != calc:
                return Out(ok=False, msg="calculator %r reloaded as %r" % (calc, ph.calculator))
        ph.run_qpoints(qs, nac_q_direction=[1, 0, 0] if nacp else None)
        f = ph.get_qpoints_dict()["frequencies"]
        e = np.abs(f - f_ref).max() / max(np.abs(f_ref).max(), 1e-12)
        if e > 1e-6:
            return Out(ok=False, info={"err": e}, msg="%s (%s): the same physical crystal gives different THz frequencies: rel %.3e (factor %r, nac %s)\n got %s\n ref %s"
                       % (calc, spec["via"], e, ph.unit_conversion_factor, spec["nac"], np.round(f[0], 4), np.round(f_ref[0], 4)))
        ph.run_mesh([3, 3, 3])
        ph.run_thermal_properties(t_min=0, t_max=600, t_step=300, cutoff_frequency=1e-3)
        tp = ph.get_thermal_properties_dict()
        for k in ("free_energy", "entropy", "heat_capacity"):
            if np.abs(tp[k] - tp_ref[k]).max() > 1e-5 * max(1.0, np.abs(tp_ref[k]).max()):
                return Out(ok=False, msg="%s: thermal property %s differs between unit systems" % (calc, k))
    return Out(ok=True, nontrivial=True, classes=["calc:" + calc, "via:" + spec["via"], "nac:" + (spec["nac"] if nacp else "none")])


# ------------------------------------------------------------------------- FORCE_SETS pairing (vasprun.xml carries positions)

VASPRUN = """<?xml version="1.0" encoding="ISO-8859-1"?>
<modeling>
 <generator><i name="version" type="string">6.3.0 </i></generator>
 <atominfo>
  <atoms>{n}</atoms>
  <types>{nt}</types>
  <array name="atoms"><dimension dim="1">ion</dimension><field type="string">element</field><field type="int">atomtype</field><set>
{atomlines}
  </set></array>
 </atominfo>
 <calculation>
  <structure>
   <crystal>
    <varray name="basis">
{basis}
    </varray>
   </crystal>
   <varray name="positions">
{positions}
   </varray>
  </structure>
  <varray name="forces">
{forces}
  </varray>
  <energy><i name="e_fr_energy"> -10.0 </i><i name="e_wo_entrp"> -10.0 </i><i name="e_0_energy"> -10.0 </i></energy>
 </calculation>
</modeling>
"""


def vasprun(cell, forces):
    syms = list(cell.symbols)
    types = []
    for s in syms:
        if s not in types:
            types.append(s)
    al = "\n".join("    <rc><c>%s</c><c>%d</c></rc>" % (s, types.index(s) + 1) for s in syms)
    v3 = lambda rows: "\n".join("    <v> %.16f %.16f %.16f </v>" % tuple(r) for r in rows)  # noqa: E731
    return VASPRUN.format(n=len(syms), nt=len(types), atomlines=al, basis=v3(cell.cell), positions=v3(cell.scaled_positions), forces=v3(forces))


@st.composite
def fs_specs(draw, tier):
    return {"key": draw(keys), "natom": draw(st.integers(2, 4)), "interleaved": draw(st.booleans()),
            "mode": draw(st.sampled_from(["ok", "ok", "shifted", "permuted", "wrong_disp", "sorted_like_poscar", "lammps_sorted", "lammps_cyclic", "lammps_shuffled", "wien2k_sym", "wien2k_sym"])), "fz": draw(st.booleans()),
            "w2k": draw(st.sampled_from([("wurtzite", [[1, 1, 0], [0, 1, 0], [0, 0, 1]]), ("wurtzite", [[2, 0, 0], [0, 1, 0], [0, 0, 1]]), ("nacl", [[1, 1, 0], [0, 1, 0], [0, 0, 1]]),
                                         ("nacl", [[1, 0, 0], [0, 1, 0], [0, 0, 1]]), ("rutile", [[1, 0, 0], [0, 1, 0], [1, 0, 1]]), ("hcp", [[2, 1, 0], [0, 2, 0], [0, 0, 1]])]))}


def _force_sets_lammps(spec, cell, rng):
    """LAMMPS dump files list atoms with their ids in whatever order the ranks wrote them: forces must follow the ids."""
    import contextlib
    import io

    from phonopy import Phonopy
    from phonopy.cui.create_force_sets import create_FORCE_SETS
    from phonopy.file_IO import parse_FORCE_SETS
    from phonopy.interface.phonopy_yaml import PhonopyYaml
    from phonopy.structure.atoms import PhonopyAtoms

    # LAMMPS orientation (a along x, b in the xy plane): forces need no rotation
    Ltri = np.linalg.cholesky(cell.cell @ cell.cell.T)
    cell = PhonopyAtoms(symbols=cell.symbols, cell=Ltri, scaled_positions=cell.scaled_positions)
    ph = Phonopy(cell, supercell_matrix=[2, 1, 1], calculator="lammps", log_level=0)
    ph.generate_displacements(distance=0.03)
    n = len(ph.supercell)
    fc = springs_fc(ph.supercell)
    true_forces = []
    for d in ph.dataset["first_atoms"]:
        u = np.zeros((n, 3))
        u[d["number"]] = d["displacement"]
        true_forces.append(-np.einsum("ijab,jb->ia", fc, u))
    types = {s_: k + 1 for k, s_ in enumerate(dict.fromkeys(ph.supercell.symbols))}
    with TmpCwd():
        ph.save("phonopy_disp.yaml")
        files = []
        for k, (sc, fr) in enumerate(zip(ph.supercells_with_displacements, true_forces)):
            order = np.arange(n)
            if spec["mode"] == "lammps_cyclic":
                order = np.roll(order, 1 + k % max(1, n - 1))
            elif spec["mode"] == "lammps_shuffled":
                order = rng.permutation(n)
            lines = ["ITEM: TIMESTEP", "0", "ITEM: NUMBER OF ATOMS", str(n), "ITEM: BOX BOUNDS xy xz yz pp pp pp", "0 1 0", "0 1 0", "0 1 0",
                     "ITEM: ATOMS id type x y z fx fy fz"]
            for i in order:
                x = sc.positions[i]
                lines.append("%d %d %15.8f %15.8f %15.8f %15.8f %15.8f %15.8f" % (i + 1, types[sc.symbols[i]], x[0], x[1], x[2], fr[i][0], fr[i][1], fr[i][2]))
            fn = "forces.%d" % k
            open(fn, "w").write("\n".join(lines) + "\n")
            files.append(fn)
        buf = io.StringIO()
        try:
            with contextlib.redirect_stdout(buf):
                py = PhonopyYaml()
                py.read("phonopy_disp.yaml")
                create_FORCE_SETS("lammps", files, phpy_yaml=py, disp_filename="phonopy_disp.yaml", force_sets_zero_mode=False, log_level=1)
            raised = None
        except BaseException as e:  # noqa: BLE001
            raised = e
        if not os.path.exists("FORCE_SETS"):
            return Out(ok=False, msg="FORCE_SETS refused for complete LAMMPS dumps (%s): %s %r" % (spec["mode"], buf.getvalue()[-300:], raised))
        ds = parse_FORCE_SETS(natom=n)
        for k, fa in enumerate(ds["first_atoms"]):
            err = np.abs(fa["forces"] - true_forces[k]).max()
            if err > 2e-8:  # dumps carry 8 decimals
                return Out(ok=False, msg="FORCE_SETS built from LAMMPS dumps whose atoms are listed in %s order pairs forces with the wrong atoms: "
                           "max error %.3e" % (spec["mode"], err))
    return Out(ok=True, nontrivial=spec["mode"] != "lammps_sorted", classes=["mode:" + spec["mode"], "accepted"])


def _force_sets_wien2k(spec, rng):
    """WIEN2k case.scf files carry positions and forces of the symmetry-INEQUIVALENT atoms only (forces as components along the
    lattice vectors); phonopy expands them to all atoms of the displaced supercell."""
    import contextlib
    import io

    from gen.crystals import PROTOS, build_crystal
    from oracles.models import own_ops, perms_for_ops
    from phonopy import Phonopy
    from phonopy.interface.wien2k import parse_set_of_forces
    from phonopy.structure.atoms import PhonopyAtoms

    name, S = spec["w2k"]
    if name not in PROTOS:
        return Out(nontrivial=False, classes=["no_such_prototype"])
    c = build_crystal({"kind": "proto", "name": name, "key": spec["key"], "perm": False, "rot": False, "masses": False})
    if c is None:
        return Out(nontrivial=False, classes=["discarded"])
    ph = Phonopy(c["cell"], supercell_matrix=np.array(S), log_level=0)
    sc = ph.supercell
    n = len(sc)
    fc = springs_fc(sc)
    ph.generate_displacements(distance=0.02)
    L = sc.cell
    red = L / np.linalg.norm(L, axis=1)[:, None]
    disps, files, truth = [], [], []
    with TmpCwd():
        for k, d in enumerate(ph.dataset["first_atoms"][:3]):
            u = np.zeros((n, 3))
            u[d["number"]] = d["displacement"]
            F = -np.einsum("ijab,jb->ia", fc, u)
            dcell = PhonopyAtoms(symbols=sc.symbols, cell=L, positions=sc.positions + u)
            rots, trans = own_ops(dcell)
            P = perms_for_ops(dcell.scaled_positions, L, rots, trans)
            orbit_of = np.array([min(int(p[i]) for p in P) for i in range(n)])
            reps = [int(np.nonzero(orbit_of == o)[0][-1]) for o in sorted(set(orbit_of.tolist()))]  # LAST member of each orbit
            lines = []
            for j, a in enumerate(reps):
                x = dcell.scaled_positions[a] % 1.0
                x = np.where(x > 0.999995, 0.0, x)
                lines.append(":POS%03d: ATOM %4d POSITION = %7.5f %7.5f %7.5f  MULTIPLICITY =  1  ZZ= 1.000  X" % (j + 1, j + 1, x[0], x[1], x[2]))
            for j, a in enumerate(reps):
                comp = F[a] @ np.linalg.inv(red)  # components along the lattice-vector directions
                lines.append((":FGL%03d:" % (j + 1)).ljust(29) + "%16.9f%16.9f%16.9f total forces" % tuple(comp))
            fn = "case-%d.scf" % k
            open(fn, "w").write("\n".join(lines) + "\n")
            files.append(fn)
            disps.append(u)
            truth.append(F)
        buf = io.StringIO()
        with contextlib.redirect_stdout(buf):
            got = parse_set_of_forces(disps, files, sc)
    classes = ["mode:wien2k_sym", "proto:" + name, "Lsym" if np.allclose(L, L.T, atol=1e-8) else "Lnonsym"]
    if not got:
        return Out(ok=False, classes=classes, msg="WIEN2k symmetry-reduced forces of %s %s were refused: %s" % (name, S, buf.getvalue()[-300:]))
    nreduced = 0
    for k, (g, t) in enumerate(zip(got, truth)):
        err = np.abs(np.array(g) - t).max()
        if err > 1e-6 * max(1.0, np.abs(t).max()):
            return Out(ok=False, classes=classes, msg="forces expanded from a symmetry-reduced WIEN2k case.scf (%s, supercell %s) differ from the true forces by %.3e "
                       "(max |F| %.3e)" % (name, S, err, np.abs(t).max()))
    return Out(ok=True, nontrivial=True, classes=classes)


def run_force_sets(spec):
    import contextlib
    import io

    from phonopy import Phonopy
    from phonopy.cui.create_force_sets import create_FORCE_SETS
    from phonopy.file_IO import parse_FORCE_SETS
    from phonopy.interface.vasp import sort_positions_by_symbols

    cs = {"key": spec["key"], "calc": "vasp", "natom": spec["natom"], "nspecies": 2, "interleaved": spec["interleaved"], "outside": False, "size": 4.0,
          "shear": 0.15, "disp": False}
    cell = make_cell(cs)
    rng = rng_from(spec["key"], 9)
    if spec["mode"].startswith("lammps"):
        return _force_sets_lammps(spec, cell, rng)
    if spec["mode"] == "wien2k_sym":
        return _force_sets_wien2k(spec, rng)
    ph = Phonopy(cell, supercell_matrix=[2, 1, 1], log_level=0)
    ph.generate_displacements(distance=0.03)
    scs = ph.supercells_with_displacements
    n = len(ph.supercell)
    fc = springs_fc(ph.supercell)
    true_forces = []
    for d in ph.dataset["first_atoms"]:
        u = np.zeros((n, 3))
        u[d["number"]] = d["displacement"]
        true_forces.append(-np.einsum("ijab,jb->ia", fc, u))
    mode = spec["mode"]
    with TmpCwd():
        ph.save("phonopy_disp.yaml")
        files = []
        for k, (sc, fr) in enumerate(zip(scs, true_forces)):
            from phonopy.structure.atoms import PhonopyAtoms

            pos = sc.scaled_positions.copy()
            syms = list(sc.symbols)
            frc = fr.copy()
            if mode == "shifted":
                pos = pos + rng.integers(-1, 2, size=pos.shape)
            elif mode == "permuted" and k == 0:
                p = np.roll(np.arange(n), 1)
                pos, frc, syms = pos[p], frc[p], [syms[i] for i in p]
            elif mode == "wrong_disp" and k == 0:
                pos[0] = pos[0] + 0.01
            elif mode == "sorted_like_poscar":
                # what a real VASP run returns: atoms in POSCAR order, i.e. grouped by species
                _, _, _, perm = sort_positions_by_symbols(syms, pos)
                pos, frc, syms = pos[perm], frc[perm], [syms[i] for i in perm]
            c = PhonopyAtoms(symbols=syms, cell=sc.cell, scaled_positions=pos)
            fn = "vasprun-%03d.xml" % (k + 1)
            open(fn, "w").write(vasprun(c, frc))
            files.append(fn)
        buf = io.StringIO()
        try:
            with contextlib.redirect_stdout(buf):
                from phonopy.interface.phonopy_yaml import PhonopyYaml

                py = PhonopyYaml()
                py.read("phonopy_disp.yaml")
                ok = create_FORCE_SETS("vasp", files, phpy_yaml=py, disp_filename="phonopy_disp.yaml",
                                       force_sets_zero_mode=False, log_level=1)
            raised = None
        except BaseException as e:  # noqa: BLE001
            ok, raised = False, e
        grouped_identity = mode == "sorted_like_poscar" and sorted(list(ph.supercell.symbols), key=list(dict.fromkeys(ph.supercell.symbols)).index) == list(ph.supercell.symbols)
        must_accept = mode in ("ok", "shifted") or grouped_identity
        produced = os.path.exists("FORCE_SETS")
        if produced:
            ds = parse_FORCE_SETS(natom=n)
            for k, fa in enumerate(ds["first_atoms"]):
                if np.abs(fa["forces"] - true_forces[k]).max() > 1e-8:
                    return Out(ok=False, msg="FORCE_SETS built from vasprun files (%s, species %s) pairs forces with the wrong atoms: max error %.3e eV/A"
                               % (mode, list(ph.supercell.symbols), np.abs(fa["forces"] - true_forces[k]).max()))
        if must_accept and not produced:
            return Out(ok=False, msg="FORCE_SETS refused although every file holds the right atoms (%s): %s %r" % (mode, buf.getvalue()[-300:], raised))
        if not must_accept and not produced:
            return Out(ok=True, nontrivial=True, rejected=True, classes=["mode:" + mode, "refused"])
    return Out(ok=True, nontrivial=True, classes=["mode:" + mode, "accepted", "interleaved" if spec["interleaved"] else "grouped"])


SUBCHECKS = [
    Sub("units", run=run_units, enumerate=unit_specs, shards={"quick": 1, "thorough": 1}, builds=["omp"],
        what="ALL 16 unit tables: frequency factor, NAC factor, conversion table, distance and force factors re-derived from base constants"),
    Sub("end_to_end", run=run_end_to_end, strategy=e2e_specs, examples={"quick": 96, "thorough": 1500}, shards={"quick": 8, "thorough": 16},
        budget={"quick": 120, "thorough": 1800}, what="one physical crystal in each unit system (constructor and save/load defaults): same THz frequencies and thermal properties"),
    Sub("structure", run=run_structure, strategy=cell_specs, examples={"quick": 1500, "thorough": 40000}, shards={"quick": 8, "thorough": 16}, builds=["omp"],
        budget={"quick": 120, "thorough": 2400}, what="structure files written by each interface read back to the same crystal (cells, displaced supercells, samples)"),
    Sub("force_sets", run=run_force_sets, strategy=fs_specs, examples={"quick": 200, "thorough": 5000}, shards={"quick": 4, "thorough": 16}, builds=["omp"],
        budget={"quick": 120, "thorough": 2400}, what="synthetic vasprun.xml files: forces paired with the right atoms, or refused"),
]
REQUIRED_CLASSES = {"structure": ["calc:" + c for c in NOAUX + TEMPL + ["wien2k", "fleur", "crystal"]]}
