"""C19 Thermal and random displacements follow harmonic canonical statistics."""
import numpy as np
from hypothesis import strategies as st

from gen.crystals import build_crystal, crystal_with_supercell, keys
from oracles.models import springs_fc
from vlib.case import Out, Sub, rng_from

PROPERTY = "C19"
TECHNIQUE = ("property-based testing (Hypothesis): the sampler's linear map is extracted exactly through one-hot normal variates and "
             "compared with the canonical covariance from our own diagonalisation of the 3N x 3N supercell problem; thermal "
             "displacement matrices against our own sum over the mesh eigen-solutions")
RULE = ("Crystals with stable spring models and supercells that contain only self-conjugate commensurate points (2x2x2, 1x1x2), "
        "conjugate pairs (3x1x1, non-diagonal) or both, optional centring primitive matrices; temperatures {0} u [2,3000] K; "
        "quantum and classical statistics; cutoff frequencies; through the class and through the Phonopy API in two-step "
        "histories (force constants or cutoff changed between two generations). Non-trivial: N >= 2, T > 0, >= 2 atoms. "
        "Distinct by spec hash.")
ASSUMPTIONS = [
    "temperatures in (0,1] K are outside the asserted domain (the code treats T <= 1 K as zero population by construction)",
    "max_distance clipping is the only documented non-linearity and is excluded from the covariance comparison",
]


def units():
    from phonopy.units import AMU, EV, Angstrom, Hbar, Kb, THz, THzToEv, VaspToTHz

    return dict(AMU=AMU, EV=EV, Angstrom=Angstrom, Hbar=Hbar, Kb=Kb, THz=THz, THzToEv=THzToEv, VaspToTHz=VaspToTHz)


def canonical_cov(scell, fc, T, dist, cutoff, factor):
    """Harmonic canonical displacement covariance of the supercell (3N x 3N, Angstrom^2)."""
    U_ = units()
    n = len(scell)
    m = np.repeat(scell.masses, 3)
    Dm = fc.transpose(0, 2, 1, 3).reshape(3 * n, 3 * n) / np.sqrt(np.outer(m, m))
    Dm = (Dm + Dm.T) / 2
    lam, U = np.linalg.eigh(Dm)
    f = np.sqrt(np.abs(lam)) * factor
    keep = f > cutoff
    fk = f[keep]
    if dist == "quantum":
        if T < 1:
            nocc = np.zeros_like(fk)
        else:
            nocc = 1.0 / np.expm1(U_["THzToEv"] * fk / (U_["Kb"] * T))
        s2 = U_["Hbar"] * U_["EV"] / U_["AMU"] / U_["THz"] / (2 * np.pi) / U_["Angstrom"] ** 2 / fk * (0.5 + nocc)
    else:
        s2 = U_["Kb"] * U_["EV"] / U_["AMU"] / (U_["THz"] * 2 * np.pi) ** 2 / U_["Angstrom"] ** 2 * T / fk ** 2
    C = (U[:, keep] * s2) @ U[:, keep].T / np.sqrt(np.outer(m, m))
    Cinv = (U[:, keep] / s2) @ U[:, keep].T * np.sqrt(np.outer(m, m))
    gap = np.abs(f - cutoff).min() / max(f.max(), 1e-12)
    return C, Cinv, int(keep.sum()), gap, f


def linear_map(rd, T):
    nii = len(rd._eigvals_ii)
    nb = len(rd._eigvals_ii[0])
    nij = len(rd._eigvals_ij) if rd._ij else 0
    tot = nii * nb + nij * 2 * nb
    r_ii = np.zeros((nii, tot, nb))
    r_ij = np.zeros((nij, 2, tot, nb))
    k = 0
    for a in range(nii):
        for b in range(nb):
            r_ii[a, k, b] = 1
            k += 1
    for a in range(nij):
        for c in range(2):
            for b in range(nb):
                r_ij[a, c, k, b] = 1
                k += 1
    rd.run(T, number_of_snapshots=tot, randn=(r_ii, r_ij))
    A = rd.u.reshape(tot, -1).T
    return A, nii, nij


@st.composite
def rd_specs(draw, tier):
    b = draw(crystal_with_supercell(max_atoms=24, max_unit=4, max_det=8, kinds=("hall", "proto", "centred", "p1")))
    b.update(key=draw(keys), pmat=draw(st.sampled_from(["none", "auto", "centring"])), T=draw(st.sampled_from([0.0, 2.0, 50.0, 300.0, 1000.0, 3000.0])),
             dist=draw(st.sampled_from(["quantum", "quantum", "classical"])), cutoff=draw(st.sampled_from([0.01, 0.01, 0.3, 1.0])),
             via=draw(st.sampled_from(["class", "api", "api_history"])), set_masses=draw(st.sampled_from([False, False, True])),
             # the same crystal described in another unit system: force constants / s^2 with the frequency factor x s (class route)
             unit_scale=draw(st.sampled_from([1.0, 1.0, 2.5, 0.1])),
             # frequencies read and handed back through the documented setter (nothing may change)
             reset_freqs=draw(st.booleans()),
             # calculator interface of the object (length unit of the dataset) and the documented plus-minus option of the sampling
             calc=draw(st.sampled_from([None, "qe", "abinit", "elk", "lammps"])), pm=draw(st.booleans()))
    return b


def run_random(spec):
    from phonopy import Phonopy
    from phonopy.phonon.random_displacements import RandomDisplacements

    c = build_crystal(spec["crystal"])
    if c is None:
        return Out(nontrivial=False, classes=["discarded_overlap"])
    pm = {"none": None, "auto": "auto", "centring": c["centring"] or "auto"}[spec["pmat"]]
    try:
        ph = Phonopy(c["cell"], supercell_matrix=np.array(spec["smat"]), primitive_matrix=pm, log_level=0)
    except Exception as e:
        return Out(nontrivial=False, rejected=True, classes=["ctor_rejected:" + type(e).__name__])
    fc = springs_fc(ph.supercell)
    ph.force_constants = fc
    scell_model = ph.supercell
    if spec.get("set_masses"):
        # masses changed on the finished object; the reference covariance is built from the masses AS SET, expanded with the index maps
        from phonopy.structure.atoms import PhonopyAtoms

        newm = 1.0 + 40 * rng_from(spec["key"], 43).random(len(ph.primitive))
        ph.masses = newm
        prim_ = ph.primitive
        ms = np.array([newm[prim_.p2p_map[i]] for i in prim_.s2p_map])
        scell_model = PhonopyAtoms(symbols=ph.supercell.symbols, cell=ph.supercell.cell, scaled_positions=ph.supercell.scaled_positions, masses=ms)
    T, dist, cutoff = spec["T"], spec["dist"], spec["cutoff"]
    if dist == "classical" and T == 0:
        T = 300.0
    factor = ph.unit_conversion_factor
    fc_cur = fc
    fc_in = fc
    us = 1.0
    if spec["via"] == "class":
        us = float(spec.get("unit_scale", 1.0))
        fc_in = fc / us ** 2
        rd = RandomDisplacements(ph.supercell, ph.primitive, fc_in, dist_func=dist, cutoff_frequency=cutoff, factor=factor * us)
        if spec.get("reset_freqs"):
            rd.frequencies = np.array(rd.frequencies, copy=True)
    else:
        if spec["via"] == "api_history":
            # a first generation with other force constants and another cutoff must not influence the second one
            ph.force_constants = fc * 1.7
            ph.generate_displacements(number_of_snapshots=2, temperature=max(T, 10.0), cutoff_frequency=cutoff * 3, random_seed=1)
            ph.force_constants = fc
        if dist == "quantum":
            ph.generate_displacements(number_of_snapshots=2, temperature=max(T, 2.0), cutoff_frequency=cutoff, random_seed=2)
        else:
            ph.init_random_displacements(dist_func=dist, cutoff_frequency=cutoff)
        rd = ph.random_displacements
    C, Cinv, nkeep, gap, freqs = canonical_cov(scell_model, fc_cur, T, dist, cutoff, factor)
    if gap < 1e-6 or nkeep == 0:
        return Out(nontrivial=False, classes=["skipped_mode_at_cutoff"])
    A, nii, nij = linear_map(rd, T)
    Cgot = A @ A.T
    sc = max(np.abs(C).max(), 1e-300)
    e1 = np.abs(Cgot - C).max() / sc
    classes = [dist, "via:" + spec["via"], "masses_set" if spec.get("set_masses") else "masses_built", "unit_scale:%g" % us,
               "freqs_reset" if (spec["via"] == "class" and spec.get("reset_freqs")) else "freqs_untouched", "ii:%d" % min(nii, 8), "ij:%d" % min(nij, 8), "T:%g" % T]
    if e1 > 1e-8:
        return Out(ok=False, classes=classes, info={"err": e1},
                   msg="covariance of the generated displacements (A A^T from one-hot normal variates) differs from the harmonic canonical covariance: "
                       "rel %.3e (%s, T=%g K, cutoff %g THz, %d self-conjugate + %d conjugate-pair q-points, via %s)" % (e1, dist, T, cutoff, nii, nij, spec["via"]))
    # seeded sampling: the snapshots are A z with z independent standard normal variates - recover z and look at it
    msnap = 8
    rd.run(T, number_of_snapshots=msnap, random_seed=int(spec["key"]) % 10007)
    U = rd.u.reshape(msnap, -1).T  # (3n, msnap)
    keep = np.linalg.norm(A, axis=0) > 1e-12 * max(np.abs(A).max(), 1e-300)
    if keep.sum() >= 2:
        Ak = A[:, keep]
        z, *_ = np.linalg.lstsq(Ak, U, rcond=None)
        if np.linalg.matrix_rank(Ak) == keep.sum():
            if np.abs(Ak @ z - U).max() > 1e-8 * max(np.abs(U).max(), 1e-300):
                return Out(ok=False, classes=classes, msg="seeded random displacements are not in the range of the linear map found with one-hot variates")
            zr = np.round(np.abs(z), 7)
            nuniq = len({tuple(r) for r in zr.tolist()})
            if nuniq < len(zr):
                return Out(ok=False, classes=classes, msg="seeded random displacements: %d of %d normal variates coincide (up to sign) in all %d snapshots - "
                           "the variates are not independent" % (len(zr) - nuniq, len(zr), msnap))
            N_ = z.size
            if N_ >= 64 and (abs(z.mean()) > 6 / np.sqrt(N_) or abs(z.var() - 1) > 6 * np.sqrt(2.0 / N_)):
                return Out(ok=False, classes=classes, msg="recovered variates of %d seeded snapshots: mean %.3f, variance %.3f over %d values - not standard normal"
                           % (msnap, z.mean(), z.var(), N_))
    n = len(ph.supercell)
    if T > 0:
        rd.run_correlation_matrix(T)
        uu = rd.uu.transpose(0, 2, 1, 3).reshape(3 * n, 3 * n)
        e2 = np.abs(uu - C).max() / sc
        if e2 > 1e-8:
            return Out(ok=False, classes=classes, msg="reported correlation matrix uu differs from the canonical covariance: rel %.3e" % e2)
        uui = rd.uu_inv.transpose(0, 2, 1, 3).reshape(3 * n, 3 * n)
        e3 = np.abs(uui - Cinv).max() / max(np.abs(Cinv).max(), 1e-300)
        if e3 > 1e-7:
            return Out(ok=False, classes=classes, msg="reported inverse correlation matrix differs from the pseudo-inverse of the covariance: rel %.3e" % e3)
    rd.run_d2f()
    e4 = np.abs(rd.force_constants - fc_in).max() / max(np.abs(fc_in).max(), 1e-300)
    if e4 > 1e-9:
        return Out(ok=False, classes=classes, msg="run_d2f does not return the original force constants: rel %.3e" % e4)
    if spec["via"] != "class" and dist == "quantum":
        # dataset of a sampling at temperature: displacements in the calculator's length unit; plus-minus appends the inverted copies
        calc = spec.get("calc")
        BOHR = 0.52917721  # Angstrom
        to_A = 1.0 if calc in (None, "lammps") else BOHR
        phc = Phonopy(c["cell"], supercell_matrix=np.array(spec["smat"]), primitive_matrix=pm, calculator=calc, log_level=0)
        phc.force_constants = fc
        seed_ = 1 + int(spec["key"]) % 9973
        phc.generate_displacements(number_of_snapshots=3, temperature=max(T, 2.0), cutoff_frequency=cutoff, random_seed=seed_, is_plusminus=False)
        D1 = np.array(phc.dataset["displacements"], copy=True)
        UA = np.array(phc.random_displacements.u, copy=True)
        classes = classes + ["calc:%s" % calc, "pm:%s" % bool(spec.get("pm"))]
        if D1.shape != (3, n, 3) or np.abs(D1 * to_A - UA).max() > 1e-6 * max(np.abs(UA).max(), 1e-300):
            return Out(ok=False, classes=classes, msg="calculator %r: dataset displacements x %.6f differ from the sampled displacements in Angstrom (max |u| %.3e vs %.3e)"
                       % (calc, to_A, float(np.abs(D1).max()) * to_A, float(np.abs(UA).max())))
        if spec.get("pm"):
            phc.generate_displacements(number_of_snapshots=3, temperature=max(T, 2.0), cutoff_frequency=cutoff, random_seed=seed_, is_plusminus=True)
            D2 = np.array(phc.dataset["displacements"])
            if D2.shape != (6, n, 3) or np.abs(D2[:3] - D1).max() > 1e-12 * max(np.abs(D1).max(), 1e-300) or np.abs(D2[3:] + D1).max() > 1e-12 * max(np.abs(D1).max(), 1e-300):
                return Out(ok=False, classes=classes, msg="calculator %r, is_plusminus=True with the same seed: dataset is not [d, -d] of the sampling without it "
                           "(shape %s, max |d| %.3e vs %.3e)" % (calc, D2.shape, float(np.abs(D2).max()), float(np.abs(D1).max())))
    N = n // len(ph.primitive)
    return Out(ok=True, nontrivial=N >= 2 and T > 0 and n >= 2, classes=classes, info={"err": e1})


@st.composite
def td_specs(draw, tier):
    from gen.crystals import crystal_specs

    return {"crystal": draw(crystal_specs(max_unit=4, kinds=("hall", "proto", "centred"), masses=True)), "key": draw(keys),
            "N": draw(st.lists(st.integers(1, 3), min_size=3, max_size=3)), "fmin": draw(st.sampled_from([0.05, 0.5])),
            "fmax": draw(st.sampled_from([None, None, 6.0])), "tlayout": draw(st.sampled_from(["floats", "ints", "int_array", "strided", "tuple"])), "direction": draw(st.lists(st.floats(-1, 1, allow_nan=False), min_size=3, max_size=3).filter(lambda d: sum(x * x for x in d) > 1e-2))}


def run_thermal(spec):
    from phonopy import Phonopy

    U_ = units()
    c = build_crystal(spec["crystal"])
    if c is None:
        return Out(nontrivial=False, classes=["discarded_overlap"])
    N = spec["N"]
    if len(c["cell"]) * int(np.prod(N)) > 36:
        return Out(nontrivial=False, classes=["too_large"])
    try:
        ph = Phonopy(c["cell"], supercell_matrix=np.diag(N), log_level=0)
    except Exception as e:
        return Out(nontrivial=False, rejected=True, classes=["ctor_rejected:" + type(e).__name__])
    fc = springs_fc(ph.supercell)
    ph.force_constants = fc
    Ts = [0.0, 50.0, 300.0, 1000.0]
    fmin, fmax = spec["fmin"], spec["fmax"]
    ph.run_mesh(N, is_mesh_symmetry=False, with_eigenvectors=True, is_gamma_center=True)
    # the same whole-number temperatures handed over as floats, Python ints, an integer array, a strided view, a tuple
    lay = spec.get("tlayout", "floats")
    from vlib.case import present

    Tin = {"floats": Ts, "ints": [int(t) for t in Ts], "int_array": np.array(Ts, dtype="int64"), "strided": present(Ts, "strided"), "tuple": tuple(Ts)}[lay]
    ph.run_thermal_displacement_matrices(temperatures=Tin, freq_min=fmin, freq_max=fmax)
    tdd = ph.get_thermal_displacement_matrices_dict()
    tdm = tdd["thermal_displacement_matrices"]
    ph.run_thermal_displacements(temperatures=Tin, freq_min=fmin, freq_max=fmax)
    td = ph.get_thermal_displacements_dict()["thermal_displacements"]
    md = ph.get_mesh_dict()
    f, ev, m = md["frequencies"], md["eigenvectors"], ph.primitive.masses
    if np.abs(f - fmin).min() < 1e-6 or (fmax is not None and np.abs(f - fmax).min() < 1e-6):
        return Out(nontrivial=False, classes=["skipped_mode_at_cutoff"])
    nq, na = len(f), len(m)
    ref = np.zeros((len(Ts), na, 3, 3), dtype=complex)
    for iq in range(nq):
        for b in range(3 * na):
            nu = f[iq, b]
            if nu <= fmin or (fmax is not None and nu >= fmax):
                continue
            e = ev[iq, :, b].reshape(na, 3)
            for it, T in enumerate(Ts):
                n_ = 0.0 if T <= 1 else 1 / np.expm1(nu * U_["THzToEv"] / (U_["Kb"] * T))
                Q2 = U_["Hbar"] * U_["EV"] / U_["Angstrom"] ** 2 * (n_ + 0.5) / (nu * 1e12 * 2 * np.pi)
                for a in range(na):
                    ref[it, a] += Q2 * np.outer(e[a], e[a].conj()) / (m[a] * U_["AMU"])
    ref /= nq
    sc = max(np.abs(ref).max(), 1e-300)
    e1 = np.abs(tdm - ref).max() / sc
    if e1 > 1e-9:
        return Out(ok=False, msg="thermal displacement matrices differ from (hbar/2Nm) sum (1+2n)/omega e x e*: rel %.3e" % e1)
    herm = np.abs(tdm - np.conj(tdm.transpose(0, 1, 3, 2))).max() / sc
    if herm > 1e-10:
        return Out(ok=False, msg="thermal displacement matrices not Hermitian/symmetric: %.3e" % herm)
    mineig = min(np.linalg.eigvalsh((x + x.conj().T) / 2).min() for t in tdm for x in t)
    if mineig < -1e-10 * sc:
        return Out(ok=False, msg="thermal displacement matrix not positive semi-definite: min eigenvalue %.3e" % mineig)
    e2 = np.abs(td.reshape(len(Ts), na, 3) - np.einsum("taii->tai", tdm).real).max() / sc
    if e2 > 1e-9:
        return Out(ok=False, msg="mean-square displacements are not the Cartesian diagonal of the matrices: %.3e" % e2)
    # CIF convention: N^-1 A^-1 U A^-T N^-T with A the lattice (column vectors), N = diag(|a*_i|)
    cif = tdd.get("thermal_displacement_matrices_cif")
    if cif is not None:
        Acol = ph.primitive.cell.T
        Nn = np.diag([np.linalg.norm(x) for x in np.linalg.inv(Acol)])
        ANinv = np.linalg.inv(Acol @ Nn)
        refcif = np.einsum("ij,tajk,lk->tail", ANinv, tdm, ANinv)
        e3 = np.abs(cif - refcif).max() / max(np.abs(refcif).max(), 1e-300)
        if e3 > 1e-9:
            return Out(ok=False, msg="CIF-convention matrices differ from N^-1 A^-1 U A^-T N^-T: %.3e" % e3)
    # projection along a direction (given in reduced coordinates of the primitive cell)
    d_red = np.array(spec["direction"])
    ph.run_thermal_displacements(temperatures=Ts, freq_min=fmin, freq_max=fmax, direction=d_red)
    tdp = ph.get_thermal_displacements_dict()["thermal_displacements"]
    dc = d_red @ ph.primitive.cell
    dc = dc / np.linalg.norm(dc)
    refp = np.einsum("i,taij,j->ta", dc, tdm, dc).real
    e4 = np.abs(tdp.reshape(len(Ts), -1) - refp).max() / sc
    if e4 > 1e-9:
        return Out(ok=False, msg="direction-projected mean-square displacement differs from d.U.d: %.3e" % e4)
    # link: Gamma-centred mesh equal to the supercell multiplicities == diagonal blocks of the supercell covariance
    # (only for dynamically stable models: the random-displacement statistics treat an imaginary mode as |omega| by documented design,
    # the thermal-displacement sums leave it out)
    if fmax is None and f.min() > -fmin:
        C, _ci, nkeep, gap, _f = canonical_cov(ph.supercell, fc, 300.0, "quantum", fmin, ph.unit_conversion_factor)
        if gap > 1e-6:
            blocks = np.array([C[3 * i:3 * i + 3, 3 * i:3 * i + 3] for i in ph.primitive.p2s_map])
            e5 = np.abs(blocks - tdm[2]).max() / sc
            if e5 > 1e-8:
                return Out(ok=False, msg="thermal displacement matrices on the commensurate mesh differ from the diagonal blocks of the supercell "
                                         "canonical covariance: %.3e" % e5)
    return Out(ok=True, nontrivial=na >= 2 and int(np.prod(N)) >= 2, classes=["fmax" if fmax else "nofmax", "N:%d" % int(np.prod(N)), "T:" + lay], info={"err": e1})


SUBCHECKS = [
    Sub("random_displacements", run=run_random, strategy=rd_specs, examples={"quick": 500, "thorough": 15000}, shards={"quick": 16, "thorough": 16},
        budget={"quick": 120, "thorough": 2400},
        what="exact covariance of the sampler (class, API, API after a history) == canonical covariance; uu, uu_inv, run_d2f"),
    Sub("thermal_displacements", run=run_thermal, strategy=td_specs, examples={"quick": 250, "thorough": 8000}, shards={"quick": 8, "thorough": 16},
        budget={"quick": 120, "thorough": 2400},
        what="matrices == own mode sum; symmetric PSD; MSD = diagonal; CIF transform; direction projection; link to the supercell covariance"),
]
