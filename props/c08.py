"""C08 Non-analytical term correction has the right limits."""
import itertools

import numpy as np
from hypothesis import strategies as st

from gen.crystals import build_crystal, crystal_with_supercell, keys
from oracles.models import dense_fc, springs_fc, sym_nac
from vlib.case import Out, Sub, present, relerr, rng_from

PROPERTY = "C08"
TECHNIQUE = ("property-based testing (Hypothesis): closed-form Gamma-limit of the NAC term, commensurate-q invariance and "
             "zero-charge no-op, differential against a NAC-free twin object")
RULE = ("Polar crystals (>= 2 species; Hall database, prototypes, centred motifs, P1) with Born charges and dielectric tensor "
        "symmetrised by OUR OWN space-group average (sum_j Z_j = 0, eps SPD), methods wang and gonze, full/compact, factor "
        "from every unit system, direction n random/axis-aligned scaled by 1e-3..1e3, commensurate q (inside/outside the "
        "first zone). Non-trivial: anisotropic Z and eps (not multiples of identity), n not along an axis. Distinct by spec hash.")
ASSUMPTIONS = [
    "Gonze-Lee: exactness at commensurate q is asserted only at the representative strictly inside the first Brillouin zone "
    "(unique nearest reciprocal lattice point); zone-boundary commensurate points and other representatives q+G carry the "
    "truncation error of the reciprocal sum and are counted as dont_care_gonze",
    "Gonze-Lee tolerance at interior commensurate points: max(1e-9, 30 x 1e-10**(eps_min / (tr eps / 3))) relative to the dipole scale "
    "(the code's exp_cutoff = 1e-10 is defined with the isotropic average of the dielectric tensor)",
]

FACTORS = [14.399652, 14.399652 / 13.605693 * 2, 2.0, 1.0, 0.5, 27.211386 * 0.52917721]


def _pmat(pm, c):
    if pm == "none":
        return None
    if pm == "centring":
        return c["centring"] if c["centring"] else "auto"
    return pm


@st.composite
def base(draw, tier):
    b = draw(crystal_with_supercell(max_atoms=32 if tier == "quick" else 48, max_unit=8, max_det=8,
                                    kinds=("hall", "proto", "centred", "p1"), allow_nondiag=True))
    b.update(key=draw(keys), pmat=draw(st.sampled_from(["none", "auto", "centring"])),
             method=draw(st.sampled_from(["wang", "gonze"])), compact=draw(st.booleans()),
             factor=draw(st.sampled_from(FACTORS)), model=draw(st.sampled_from(["springs", "dense"])),
             nscale=draw(st.sampled_from([1e-3, 1.0, 1.0, 1e3])), naxis=draw(st.sampled_from([-1, -1, -1, 0, 1, 2])),
             blayout=draw(st.sampled_from(["array", "array", "list", "fortran", "transposed", "strided", "readonly"])),
             elayout=draw(st.sampled_from(["array", "array", "list", "fortran", "transposed", "readonly"])),
             # symmetry handling switched off: the tensors are used exactly as given, also when they do not have the crystal's symmetry
             nosym=draw(st.sampled_from([False, False, False, True])))
    return b


def _setup(spec, zero_born=False):
    from phonopy import Phonopy

    c = build_crystal(spec["crystal"])
    if c is None:
        return None, Out(nontrivial=False, classes=["discarded_overlap"])
    S = np.array(spec["smat"])
    kws = {"is_symmetry": False} if spec.get("nosym") else {}
    try:
        ph = Phonopy(c["cell"], supercell_matrix=S, primitive_matrix=_pmat(spec["pmat"], c), log_level=0, **kws)
        ph0 = Phonopy(c["cell"], supercell_matrix=S, primitive_matrix=_pmat(spec["pmat"], c), log_level=0, **kws)
    except Exception as e:
        return None, Out(nontrivial=False, rejected=True, classes=["ctor_rejected:" + type(e).__name__])
    rng = rng_from(spec["key"])
    if spec["model"] == "springs":
        fc = springs_fc(ph.supercell)
    else:
        fc, _ = dense_fc(ph.supercell, rng)
    p2s = ph.primitive.p2s_map
    ph.force_constants = np.array(fc[p2s], order="C") if spec["compact"] else fc.copy()
    ph0.force_constants = np.array(fc[p2s], order="C") if spec["compact"] else fc.copy()
    try:
        Z, eps = sym_nac(ph.primitive, rng)
    except ValueError:
        return None, Out(nontrivial=False, classes=["skipped"])
    if spec.get("nosym") and len(Z) >= 2:
        dZ = rng.normal(size=Z.shape) * 0.08 * max(float(np.abs(Z).max()), 1e-3)
        Z = Z + dZ - dZ.mean(axis=0, keepdims=True)  # still neutral, no longer invariant
        de = rng.normal(size=(3, 3))
        eps = eps + 0.05 * float(np.linalg.eigvalsh(eps).min()) * (de + de.T) / 2
    if zero_born:
        Z = Z * 0.0
    ph.nac_params = {"born": present(Z, spec.get("blayout", "array")), "dielectric": present(eps, spec.get("elayout", "array")),
                     "factor": spec["factor"], "method": spec["method"]}
    prim = ph.primitive
    # natural magnitude of dynamical-matrix entries: short-range part + dipole part
    dscale = np.abs(fc).max() / prim.masses.min() + \
        4 * np.pi / abs(np.linalg.det(prim.cell)) * spec["factor"] * np.abs(Z).max() ** 2 / np.linalg.eigvalsh(eps).min() / prim.masses.min()
    return (ph, ph0, Z, eps, rng, fc, dscale), None


def _D(p, q, nd=None):
    p.run_qpoints([q], with_dynamical_matrices=True, nac_q_direction=nd)
    return p.get_qpoints_dict()["dynamical_matrices"][0].copy()


def _direction(spec, rng):
    if spec["naxis"] >= 0:
        n = np.zeros(3)
        n[spec["naxis"]] = 1.0
    else:
        n = rng.normal(size=3)
    return n * spec["nscale"]


def run_gamma(spec):
    r, out = _setup(spec)
    if r is None:
        return out
    ph, ph0, Z, eps, rng, fc, dscale = r
    prim = ph.primitive
    dm = ph.dynamical_matrix
    e0 = max(np.abs(dm.born - Z).max(), np.abs(dm.dielectric_constant - eps).max())
    if e0 > 1e-10:
        return Out(ok=False, msg="phonopy's symmetrisation changes already-symmetric Born/dielectric tensors: %.3e" % e0)
    V = abs(np.linalg.det(prim.cell))
    m = prim.masses
    B = np.linalg.inv(prim.cell)  # columns are reciprocal vectors (no 2 pi)
    n = _direction(spec, rng)
    D0 = _D(ph0, [0, 0, 0])
    Dn = _D(ph, [0, 0, 0], n)
    nc = B @ n
    ZZ = np.einsum("a,iab->ib", nc, Z)
    f = spec["factor"]
    ref = np.zeros_like(D0)
    for i in range(len(m)):
        for j in range(len(m)):
            ref[3 * i:3 * i + 3, 3 * j:3 * j + 3] = 4 * np.pi / V * f * np.outer(ZZ[i], ZZ[j]) / (nc @ eps @ nc) / np.sqrt(m[i] * m[j])
    sc = dscale
    e1 = np.abs(Dn - D0 - ref).max() / sc
    if e1 > 1e-9:
        return Out(ok=False, info={"err": e1}, msg="Gamma-limit along n=%s (%s, factor %g): D - D0 differs from (4pi/V) f (n.Z)(n.Z)/(n.eps.n)/sqrt(mm'): %.3e"
                   % (n.tolist(), spec["method"], f, e1))
    # independence of |n|
    Dn2 = _D(ph, [0, 0, 0], n * 37.5)
    e2 = np.abs(Dn2 - Dn).max() / sc
    if e2 > 1e-9:
        return Out(ok=False, msg="Gamma-limit depends on the length of n: %.3e" % e2)
    # direct object call and frequencies-level API
    dm.run([0, 0, 0], q_direction=n)
    e3 = np.abs(dm.dynamical_matrix - Dn).max() / sc
    if e3 > 1e-11:
        return Out(ok=False, msg="DynamicalMatrixNAC.run(q_direction) differs from run_qpoints(nac_q_direction): %.3e" % e3)
    e4 = np.abs(_D(ph, [0, 0, 0]) - D0).max() / sc
    if e4 > 1e-9:
        return Out(ok=False, msg="Gamma without direction differs from the uncorrected matrix: %.3e" % e4)
    # the deprecated-but-supported entry point takes the same direction
    import warnings

    with warnings.catch_warnings():
        warnings.simplefilter("ignore")
        dm.set_dynamical_matrix([0, 0, 0], q_direction=n)
    e5 = np.abs(dm.dynamical_matrix - Dn).max() / sc
    if e5 > 1e-11:
        return Out(ok=False, msg="DynamicalMatrixNAC.set_dynamical_matrix(q, q_direction) differs from run(q, q_direction): %.3e" % e5)
    # the zone centre APPROACHED along n: at |q| = 1e-4 ... 1e-3 1/Angstrom the correction must already be the limit up to O(|q| r)
    if np.abs(ref).max() > 1e-6 * sc:
        qlen = 10 ** rng.uniform(-4.3, -3.3)
        q_small = prim.cell @ (nc / np.linalg.norm(nc) * qlen)  # reduced coordinates of the Cartesian vector qlen * n_hat
        dd = _D(ph, q_small) - _D(ph0, q_small)
        # finite-q remainder: O(2 pi |q| r) of the overall dipole scale (r up to the supercell size), whatever the size of the
        # limit along this particular direction
        rmax = float(np.linalg.norm(ph.supercell.cell, axis=1).max())
        dip = 4 * np.pi / V * f * np.abs(Z).max() ** 2 / np.linalg.eigvalsh(eps).min() / m.min()
        e6 = np.abs(dd - ref).max() / np.abs(ref).max()
        if np.abs(dd - ref).max() > 0.02 * np.abs(ref).max() + 2 * 2 * np.pi * qlen * rmax * dip:
            return Out(ok=False, info={"err": e6}, msg="approaching the zone centre along n (|q| = %.2e 1/A, %s): correction differs from its limit by %.3e of the "
                       "limit's size" % (qlen, spec["method"], e6))
    aniso = np.abs(eps - np.eye(3) * np.trace(eps) / 3).max() > 1e-6 or np.abs(Z - np.eye(3)[None] * np.trace(Z, axis1=1, axis2=2)[:, None, None] / 3).max() > 1e-6
    return Out(ok=True, nontrivial=bool(aniso) and spec["naxis"] < 0 and np.abs(ref).max() > 1e-12,
               classes=[spec["method"], "compact" if spec["compact"] else "full", "nscale:%g" % spec["nscale"], spec["model"],
                        "born:" + spec.get("blayout", "array"), "eps:" + spec.get("elayout", "array"),
                        "nosym_tensors_as_given" if spec.get("nosym") else "sym"],
               info={"err": max(e1, e2, e3, e4, e5)})


def bz_reduce(q, B):
    cands = []
    for G in itertools.product(range(-3, 4), repeat=3):
        k = q + np.array(G)
        cands.append((float(np.linalg.norm(B @ k)), tuple(k.tolist())))
    cands.sort()
    unique = cands[1][0] - cands[0][0] > 1e-6
    return np.array(cands[0][1]), unique


def run_commensurate(spec):
    from phonopy.harmonic.dynmat_to_fc import get_commensurate_points

    r, out = _setup(spec)
    if r is None:
        return out
    ph, ph0, Z, eps, rng, fc, dscale = r
    prim = ph.primitive
    T = np.rint(ph.supercell.cell @ np.linalg.inv(prim.cell)).astype(int)
    cp = get_commensurate_points(T.T)
    if len(cp) < 2:
        return Out(nontrivial=False, classes=["N1"])
    B = np.linalg.inv(prim.cell)
    sel = rng.permutation(np.arange(1, len(cp)))[:4]
    worst = 0.0
    asserted = dont_care = 0
    for i in sel:
        q = cp[i]
        if spec["method"] == "wang":
            q_use = q + rng.integers(-2, 3, size=3)
        else:
            q_use, uniq = bz_reduce(q, B)
            if not uniq:
                dont_care += 1
                continue
        d0 = _D(ph0, q_use)
        d1 = _D(ph, q_use)
        e = np.abs(d1 - d0).max() / dscale
        worst = max(worst, e)
        asserted += 1
        tol = 1e-9
        if spec["method"] == "gonze":
            # stated precision of the reciprocal sum: terms are dropped where exp(-K.eps.K / 4 Lambda^2) < 1e-10 for the ISOTROPIC average
            # of eps (DynamicalMatrixGL._set_nac_params); along the softest dielectric axis the last kept term is 1e-10 ** r,
            # r = eps_min / (tr eps / 3). Measured deviations are (1..6) x 1e-10**r; 30 x is allowed.
            w = np.linalg.eigvalsh((eps + eps.T) / 2)
            tol = max(1e-9, 30 * 1e-10 ** (w.min() / (w.sum() / 3)))
        if e > tol:
            return Out(ok=False, info={"err": e}, msg="NAC (%s) changes D at commensurate q=%s: rel err %.3e (tolerance %.1e)" % (spec["method"], q_use.tolist(), e, tol))
    return Out(ok=True, nontrivial=asserted > 0, classes=[spec["method"], "asserted:%d" % asserted, "dont_care_gonze:%d" % dont_care],
               info={"err": worst})


def run_zero(spec):
    r, out = _setup(spec, zero_born=True)
    if r is None:
        return out
    ph, ph0, Z, eps, rng, fc, dscale = r
    if spec.get("prior"):
        # history variant: the object first carried non-zero charges and was used, then receives Z = 0
        Z1, eps1 = sym_nac(ph.primitive, rng_from(spec["key"], 7))
        ph.nac_params = {"born": Z1, "dielectric": eps1, "factor": spec["factor"], "method": spec["method"]}
        dscale += 4 * np.pi / abs(np.linalg.det(ph.primitive.cell)) * spec["factor"] * np.abs(Z1).max() ** 2 / \
            np.linalg.eigvalsh(eps1).min() / ph.primitive.masses.min()
        _D(ph, [0.1, 0.2, 0.3])
        _D(ph, [0, 0, 0], [1, 0, 0])
    ph.nac_params = {"born": present(Z, spec.get("blayout", "array")), "dielectric": present(eps, spec.get("elayout", "array")),
                     "factor": spec["factor"], "method": spec["method"]}
    q = rng.normal(size=3)
    n = _direction(spec, rng)
    worst = 0
    for qq, nd in ((q, None), (np.zeros(3), n), (np.array([0.5, 0, 0]), None), (q * 1e-4, None)):
        d0 = _D(ph0, qq)
        d1 = _D(ph, qq, nd)
        e = np.abs(d1 - d0).max() / dscale
        worst = max(worst, e)
        if e > 1e-9:
            return Out(ok=False, msg="zero Born charges (%s) still change D at q=%s: %.3e" % (spec["method"], qq.tolist(), e))
    return Out(ok=True, nontrivial=True, classes=[spec["method"], "compact" if spec["compact"] else "full",
                                                  "after_prior_nac" if spec.get("prior") else "fresh"], info={"err": worst})


@st.composite
def zero_specs(draw, tier):
    b = draw(base(tier))
    b["prior"] = draw(st.booleans())
    return b


SUBCHECKS = [
    Sub("gamma_limit", run=run_gamma, strategy=base, examples={"quick": 500, "thorough": 15000},
        shards={"quick": 8, "thorough": 16}, budget={"quick": 110, "thorough": 1800},
        what="D(Gamma->n) - D0 == (4pi/V) f (n.Z_j)(n.Z_j')/(n.eps.n)/sqrt(m m'), independent of |n|, both methods"),
    Sub("commensurate", run=run_commensurate, strategy=base, examples={"quick": 300, "thorough": 10000},
        shards={"quick": 8, "thorough": 16}, budget={"quick": 110, "thorough": 1800},
        what="correction vanishes at commensurate q != 0 (wang: any representative; gonze: interior representative)"),
    Sub("zero_born", run=run_zero, strategy=zero_specs, examples={"quick": 200, "thorough": 6000},
        shards={"quick": 4, "thorough": 16}, budget={"quick": 110, "thorough": 1800},
        what="Z = 0 makes the correction a no-op at every q"),
]
