"""C04 Supercell and primitive cell are exact re-tilings with consistent index maps."""
import itertools

import numpy as np
from hypothesis import strategies as st

from gen.crystals import CENTRING_VECS, build_crystal, det3, keys
from vlib.case import Out, Sub, rng_from

PROPERTY = "C04"
TECHNIQUE = ("bounded-exhaustive enumeration of supercell matrices + property-based testing (Hypothesis) against a "
             "set-arithmetic reference model of lattice tilings")
RULE = ("'supercell_enum': ALL integer matrices with entries in [-1,1] (quick) / [-2,2] with |det|<=12 (thorough), both "
        "construction algorithms, on a 2-atom triclinic cell with masses and moments - det<=0 must be rejected. "
        "'supercell_random': Hypothesis-drawn unit cells (1-4 atoms, extended symbols such as Cl1, custom masses, "
        "collinear/non-collinear moments, positions outside [0,1), sub-tolerance noise), matrices with entries in [-4,4], "
        "1<=det<=12, symprec in {1e-5,1e-3}. 'primitive': centred motifs (P,F,I,A,C,R; labelled species) with matching, "
        "non-matching, auto and explicit primitive matrices on random supercells through the Phonopy constructor (also positions that "
        "fulfil the centring only within the symprec given). 'auto_axes': primitive_matrix='auto' on generated crystals handed in as "
        "conventional, permuted/rotated or re-tiled (supercell) cells, against the pure translations found by brute force. "
        "Non-trivial: non-diagonal S with det>=2, or S != S^T, or centring P, or SNF path. Distinct by (S, algorithm, "
        "cell spec).")
ASSUMPTIONS = ["reference model: integer arithmetic on lattice cosets modulo S^T Z^3, done in numpy by the check itself"]
LEVEL_NOTE = "The [-1,1]^9 (quick) and [-2,2]^9 (thorough) matrix sweeps are exhaustive; beyond that random."

BASE_L = np.array([[3.0, 0, 0], [0.3, 3.3, 0], [0.1, 0.2, 3.7]])
BASE_POS = np.array([[0.1, 0.2, 0.3], [0.6, 0.45, 0.8]])


def _base_cell():
    from phonopy.structure.atoms import PhonopyAtoms

    return PhonopyAtoms(symbols=["Na", "Cl"], cell=BASE_L, scaled_positions=BASE_POS, masses=[1.5, 2.5],
                        magnetic_moments=[1.0, -1.0])


def check_supercell(cell, S, old, symprec=1e-5, tol=1e-8):
    """Return (status, errors). status in ok|rejected|BAD."""
    import contextlib
    import io

    from phonopy.structure.cells import get_supercell

    S = np.array(S)
    det = det3(S)
    buf = io.StringIO()
    try:
        with contextlib.redirect_stdout(buf):
            sc = get_supercell(cell, S, is_old_style=old, symprec=symprec)
    except Exception as e:
        if det > 0:
            return "BAD", ["raised %s: %s" % (type(e).__name__, str(e)[:80])], None
        return "rejected", [type(e).__name__], None
    if len(sc) == 0 or sc.s2u_map is None:
        if det > 0:
            return "BAD", ["empty supercell for det %d" % det], None
        return "rejected", ["empty"], None
    if det <= 0:
        return "BAD", ["populated supercell built for det %d" % det], None
    L = cell.cell
    upos = cell.scaled_positions
    nu = len(cell)
    errs = []
    if not np.allclose(sc.cell, S.T @ L, atol=1e-10):
        errs.append("lattice != S^T L")
    if len(sc) != det * nu:
        errs.append("natom %d != det*n_u %d" % (len(sc), det * nu))
        return "BAD", errs, sc
    xu = sc.positions @ np.linalg.inv(L)  # supercell atoms in unit-cell coordinates
    Sinv = np.linalg.inv(S.T.astype(float))
    seen = {}
    mm_u = cell.magnetic_moments
    mm_s = sc.magnetic_moments
    for i in range(len(sc)):
        u = sc.u2u_map[sc.s2u_map[i]]
        n = xu[i] - upos[u]
        if np.abs(n - np.rint(n)).max() > tol:
            errs.append("atom %d is not unit atom %d + lattice vector" % (i, u))
            break
        if sc.symbols[i] != cell.symbols[u] or sc.masses[i] != cell.masses[u]:
            errs.append("species/mass not copied for atom %d" % i)
            break
        if (mm_u is None) != (mm_s is None) or (mm_u is not None and not np.array_equal(mm_s[i], mm_u[u])):
            errs.append("magnetic moment not copied for atom %d" % i)
            break
        key = tuple(np.round((np.rint(n) @ Sinv) % 1.0, 6) % 1.0)
        seen.setdefault(u, set()).add(key)
    if not errs and (len(seen) != nu or any(len(v) != det for v in seen.values())):
        errs.append("images of a unit atom are not det distinct cosets")
    u2s = sc.u2s_map
    if not errs:
        if (sc.s2u_map[u2s] != u2s).any() or sorted(sc.u2u_map.keys()) != sorted(u2s.tolist()) or \
                any(sc.u2u_map[k] != j for j, k in enumerate(u2s)):
            errs.append("u2s/s2u/u2u maps inconsistent")
        # u2s_map[j] must be an image of unit atom j
        for j, k in enumerate(u2s):
            n = xu[k] - upos[j]
            if np.abs(n - np.rint(n)).max() > tol:
                errs.append("u2s_map[%d] is not an image of unit atom %d" % (j, j))
                break
    return ("ok" if not errs else "BAD"), errs, sc


def coset_multiset(sc, L, S):
    xu = sc.positions @ np.linalg.inv(L)
    Sinv = np.linalg.inv(np.array(S).T.astype(float))
    xs = (xu @ Sinv) % 1.0
    xs = np.round(xs, 6) % 1.0
    return sorted((s,) + tuple(x) for s, x in zip(sc.symbols, xs.tolist()))


def enum_specs(tier):
    if tier == "quick":
        mats = itertools.product((-1, 0, 1), repeat=9)
        out = [{"S": list(m)} for m in mats]
    else:
        out = []
        rng = np.arange(-2, 3)
        for m in itertools.product(rng.tolist(), repeat=9):
            d = det3(np.array(m).reshape(3, 3))
            if abs(d) <= 12:
                out.append({"S": list(m)})
    # chunk: one spec = up to 64 matrices to amortise process overhead
    chunks = [{"mats": [o["S"] for o in out[i:i + 64]]} for i in range(0, len(out), 64)]
    return chunks


def run_enum(spec):
    cell = _base_cell()
    n_ok = n_rej = 0
    nontriv = 0
    ntkeys = []
    for m in spec["mats"]:
        S = np.array(m).reshape(3, 3)
        scs = {}
        for old in (True, False):
            status, errs, sc = check_supercell(cell, S, old)
            if status == "BAD":
                return Out(ok=False, msg="supercell S=%s is_old_style=%s: %s" % (S.tolist(), old, "; ".join(errs)),
                           info={"S": S.tolist(), "old": old})
            if status == "ok":
                n_ok += 1
                scs[old] = sc
            else:
                n_rej += 1
        if len(scs) == 2:
            if coset_multiset(scs[True], cell.cell, S) != coset_multiset(scs[False], cell.cell, S):
                return Out(ok=False, msg="classic and SNF constructions give different atom sets for S=%s" % S.tolist())
            if np.any(S - np.diag(np.diag(S))) and (det3(S) >= 2 or not np.array_equal(S, S.T)):
                nontriv += 1
                ntkeys.append("S" + "".join(str(x) for x in S.ravel()))
    return Out(ok=True, nontrivial=nontriv > 0, key=ntkeys, classes=["chunk"],
               info={"n_cases": 2 * len(spec["mats"]), "built": n_ok, "rejected_nonpositive_det": n_rej})


# ------------------------------------------------------------------ random unit cells


@st.composite
def random_cell_specs(draw, tier):
    n = draw(st.integers(1, 4))
    return {
        "key": draw(keys), "natom": n,
        "labels": draw(st.sampled_from(["plain", "plain", "indexed"])),
        "masses": draw(st.booleans()),
        "magmom": draw(st.sampled_from(["none", "collinear", "noncollinear"])),
        "outside": draw(st.booleans()),
        "noise": draw(st.sampled_from([0.0, 0.0, 1e-8])),
        "S": draw(st.lists(st.integers(-4, 4), min_size=9, max_size=9).filter(lambda v: 1 <= det3(np.array(v).reshape(3, 3)) <= 12)),
        "symprec": draw(st.sampled_from([1e-5, 1e-5, 1e-3])),
    }


def build_random_cell(spec):
    from phonopy.structure.atoms import PhonopyAtoms

    rng = rng_from(spec["key"])
    n = spec["natom"]
    for _ in range(20):
        L = (np.eye(3) + rng.normal(size=(3, 3)) * 0.4) * (3 + 2 * rng.random())
        if abs(np.linalg.det(L)) > 15:
            break
    pos = rng.random((n, 3))
    if spec["outside"]:
        pos = pos + rng.integers(-2, 3, size=(n, 3))
    if spec["noise"]:
        pos = pos + rng.uniform(-1, 1, size=pos.shape) * spec["noise"]
    base = ["Fe", "Cl", "Na"]
    if spec["labels"] == "indexed":
        symbols = [["Fe1", "Fe2", "Cl1", "Cl"][i % 4] for i in range(n)]
    else:
        symbols = [base[rng.integers(0, 3)] for i in range(n)]
    masses = (1 + 50 * rng.random(n)).tolist() if (spec["masses"] or spec["labels"] == "indexed") else None
    mag = None
    if spec["magmom"] == "collinear":
        mag = rng.normal(size=n).tolist()
    elif spec["magmom"] == "noncollinear":
        mag = rng.normal(size=(n, 3)).tolist()
    return PhonopyAtoms(symbols=symbols, cell=L, scaled_positions=pos, masses=masses, magnetic_moments=mag)


def run_random(spec):
    cell = build_random_cell(spec)
    S = np.array(spec["S"]).reshape(3, 3)
    scs = {}
    for old in (True, False):
        status, errs, sc = check_supercell(cell, S, old, symprec=spec["symprec"], tol=1e-7)
        if status != "ok":
            return Out(ok=False, msg="supercell S=%s is_old_style=%s: %s" % (S.tolist(), old, "; ".join(errs)))
        scs[old] = sc
    if coset_multiset(scs[True], cell.cell, S) != coset_multiset(scs[False], cell.cell, S):
        return Out(ok=False, msg="classic and SNF constructions give different atom sets for S=%s" % S.tolist())
    nondiag = bool(np.any(S - np.diag(np.diag(S))))
    return Out(ok=True, nontrivial=nondiag and (det3(S) >= 2 or not np.array_equal(S, S.T)),
               classes=[spec["labels"], spec["magmom"], "nondiag" if nondiag else "diag", "det:%d" % det3(S)])


# ------------------------------------------------------------------ primitive side


@st.composite
def prim_specs(draw, tier):
    cen = draw(st.sampled_from(["P", "F", "I", "A", "C", "R"]))
    which = draw(st.sampled_from(["right", "right", "auto", "wrong", "explicit", "none"]))
    other = draw(st.sampled_from(["F", "I", "A", "C", "R"]))
    return {
        "key": draw(keys), "centring": cen, "nmotif": draw(st.integers(1, 3)), "which": which, "other": other,
        "labels": draw(st.sampled_from(["plain", "indexed", "indexed_sublattice"])),
        "masses": draw(st.booleans()), "magmom": draw(st.sampled_from(["none", "collinear"])),
        "perm": draw(st.booleans()),
        "S": draw(st.lists(st.integers(-2, 3), min_size=9, max_size=9).filter(lambda v: 1 <= det3(np.array(v).reshape(3, 3)) <= 6)),
        "snf": draw(st.booleans()), "dense_svecs": draw(st.booleans()),
        # a looser distance tolerance together with a supercell of > 1/symprec primitive cells (3x3x3 of a centred cell)
        "loose": draw(st.sampled_from([0, 0, 0, 0, 1])),
    }


def build_centred(spec):
    from phonopy.structure.atoms import PhonopyAtoms

    rng = rng_from(spec["key"])
    cen = spec["centring"]
    if cen == "R":
        a = 3.5 + rng.random()
        L = np.array([[a, 0, 0], [-a / 2, a * np.sqrt(3) / 2, 0], [0, 0, a * 1.7]])
    else:
        L = rng.normal(size=(3, 3)) * 0.3 + np.eye(3) * 4
    nm = spec["nmotif"]
    motif = rng.random((nm, 3))
    # keep motif atoms well separated (also from centring images)
    base_sym = ["Na", "Cl", "O"]
    pos, symbols, masses, mags, sub = [], [], [], [], []
    mvals = 1 + 50 * rng.random(nm)
    gvals = rng.normal(size=nm)
    for ti, t in enumerate(CENTRING_VECS[cen]):
        for m in range(nm):
            pos.append((motif[m] + np.array(t)) % 1.0)
            s = base_sym[m % 3]
            if spec["labels"] == "indexed":
                s = s + str(m + 1)
            elif spec["labels"] == "indexed_sublattice":
                # labels distinguish the centring images: the centring translation is NOT a symmetry any more
                s = s + str(ti + 1)
            symbols.append(s)
            masses.append(mvals[m])
            mags.append(gvals[m])
            sub.append(ti)
    order = rng.permutation(len(pos)) if spec["perm"] else np.arange(len(pos))
    cell = PhonopyAtoms(symbols=[symbols[i] for i in order], cell=L, scaled_positions=np.array(pos)[order],
                        masses=[masses[i] for i in order] if (spec["masses"] or spec["labels"] != "plain") else None,
                        magnetic_moments=[mags[i] for i in order] if spec["magmom"] == "collinear" else None)
    return cell


def _min_sep(cell):
    p = cell.scaled_positions
    d = p[:, None, :] - p[None, :, :]
    d -= np.rint(d)
    r = np.linalg.norm(d @ cell.cell, axis=2)
    r[np.arange(len(p)), np.arange(len(p))] = np.inf
    return r.min() if len(p) > 1 else np.inf


def is_crystal_translation(sc, v_cart, tol=1e-5):
    """Does translating by v map the (periodic) supercell crystal onto itself, species/mass/moment-wise?"""
    inv = np.linalg.inv(sc.cell)
    sh = (sc.positions + v_cart) @ inv
    sp = sc.scaled_positions
    mags = sc.magnetic_moments
    for a in range(len(sc)):
        dd = sp - sh[a]
        dd -= np.rint(dd)
        j = np.where(np.linalg.norm(dd @ sc.cell, axis=1) < tol)[0]
        if len(j) != 1:
            return False
        j = j[0]
        if sc.symbols[j] != sc.symbols[a] or abs(sc.masses[j] - sc.masses[a]) > 1e-10:
            return False
        if mags is not None and not np.allclose(mags[j], mags[a], atol=1e-10):
            return False
    return True


def run_primitive(spec):
    import contextlib
    import io

    from phonopy import Phonopy
    from phonopy.structure.cells import get_primitive_matrix_by_centring

    cell = build_centred(spec)
    if _min_sep(cell) < 0.3:
        return Out(nontrivial=False, classes=["discarded_overlap"])
    cen = spec["centring"]
    which = spec["which"]
    if which == "right":
        pm = cen
    elif which == "auto":
        pm = "auto"
    elif which == "none":
        pm = None
    elif which == "explicit":
        pm = get_primitive_matrix_by_centring(cen)
    else:
        pm = spec["other"] if spec["other"] != cen else ("I" if cen != "I" else "F")
    S = np.array(spec["S"]).reshape(3, 3)
    kw_sp = {}
    if spec.get("loose"):
        S = np.diag([3, 3, 3]) if cen != "P" else np.diag([5, 5, 5])
        kw_sp = {"symprec": 1e-2}
    labelled_sub = spec["labels"] == "indexed_sublattice" and cen != "P"
    buf = io.StringIO()
    via = "phonopy" if (spec["magmom"] == "none" and spec["key"] % 2 == 0) else "direct"
    try:
        with contextlib.redirect_stdout(buf):
            if via == "phonopy":
                ph = Phonopy(cell, supercell_matrix=S, primitive_matrix=pm, log_level=0, use_SNF_supercell=spec["snf"],
                             store_dense_svecs=spec["dense_svecs"], **kw_sp)
                prim, sc = ph.primitive, ph.supercell
            else:
                # the cell-construction layer itself (no symmetry search of the whole crystal)
                from phonopy.structure.cells import get_primitive, get_primitive_matrix, get_supercell, guess_primitive_matrix

                sc = get_supercell(cell, S, is_old_style=not spec["snf"], **kw_sp)
                P = guess_primitive_matrix(cell) if which == "auto" else get_primitive_matrix(pm)
                tm = np.linalg.inv(S) if P is None else np.linalg.inv(S) @ P
                prim = get_primitive(sc, tm, store_dense_svecs=spec["dense_svecs"], **kw_sp)
    except Exception as e:
        valid_request = (which == "none") or (which == "auto" and not labelled_sub) or \
            (which in ("right", "explicit") and not labelled_sub)
        if which == "auto" and "magnetic moments" in str(e):
            # documented: 'auto' cannot be used with magnetic moments
            return Out(ok=True, nontrivial=False, rejected=True, classes=["rejected_documented:auto+magmom"])
        if valid_request:
            return Out(ok=False, msg="valid primitive matrix %r for %s-centred cell (labels %s, via %s) rejected: %r"
                       % (pm, cen, spec["labels"], via, e))
        return Out(ok=True, nontrivial=True, rejected=True, classes=["rejected_invalid:" + which])
    if len(prim) == 0 or len(sc) == 0:
        return Out(ok=True, nontrivial=False, rejected=True, classes=["empty_cell"])
    def invariants(prim):
        errs = []
        if len(sc) % len(prim):
            errs.append("natom_s not a multiple of natom_p")
        N = len(sc) // max(len(prim), 1)
        Pinv = np.linalg.inv(prim.cell)
        p2s, s2p, p2p = prim.p2s_map, prim.s2p_map, prim.p2p_map
        # supercell lattice must be an integer combination of primitive vectors, index N
        T = sc.cell @ Pinv
        if np.abs(T - np.rint(T)).max() > 1e-6 or abs(abs(np.linalg.det(T)) - N) > 1e-6:
            errs.append("supercell is not an index-N superlattice of the primitive lattice")
        mags_s = sc.magnetic_moments
        mags_p = prim.magnetic_moments
        for i in range(len(sc)):
            d = (sc.positions[i] - sc.positions[s2p[i]]) @ Pinv
            if np.abs(d - np.rint(d)).max() > 1e-6:
                errs.append("supercell atom %d is not primitive atom + primitive lattice vector" % i)
                break
            k = p2p[s2p[i]]
            if sc.symbols[i] != prim.symbols[k] or abs(sc.masses[i] - prim.masses[k]) > 1e-12:
                errs.append("species/mass of supercell atom %d differs from its primitive atom (%s vs %s)" % (i, sc.symbols[i], prim.symbols[k]))
                break
            if (mags_s is None) != (mags_p is None) or (mags_s is not None and not np.allclose(mags_s[i], mags_p[k], atol=1e-12)):
                errs.append("moment of supercell atom %d differs from its primitive atom" % i)
                break
        if not errs:
            if sorted(p2p.keys()) != sorted(np.array(p2s).tolist()) or any(p2p[k] != j for j, k in enumerate(p2s)) or \
                    any(s2p[k] != k for k in p2s) or not set(np.array(s2p).tolist()) <= set(np.array(p2s).tolist()):
                errs.append("p2s/s2p/p2p maps inconsistent")
            for j, k in enumerate(p2s):
                d = (prim.positions[j] - sc.positions[k]) @ Pinv
                if np.abs(d - np.rint(d)).max() > 1e-6:
                    errs.append("primitive atom %d is not at the position of supercell atom p2s_map[%d]" % (j, j))
                    break
        # unit-cell species must survive into the supercell (labels like Fe1/Fe2 included)
        if not errs and sorted(sc.symbols) != sorted(list(cell.symbols) * det3(S)):
            errs.append("symbols of the supercell are not |det S| copies of the unit cell's symbols")
        # each primitive vector must be a translation of the crystal
        if not errs:
            for v in prim.cell:
                if not is_crystal_translation(sc, v):
                    errs.append("a primitive lattice vector is not a translation symmetry of the crystal (species/mass/moment-wise)")
                    break
        # pure-translation permutations: group, N elements, simply transitive on each sublattice
        if not errs:
            perms = prim.atomic_permutations
            ps = {tuple(int(y) for y in x) for x in perms}
            n = len(sc)
            if len(perms) != N or len(ps) != N:
                errs.append("number of pure-translation permutations %d (distinct %d) != N=%d" % (len(perms), len(ps), N))
            elif tuple(range(n)) not in ps:
                errs.append("identity missing from atomic_permutations")
            else:
                arr = np.array(perms)
                for a in arr:
                    if sorted(a.tolist()) != list(range(n)):
                        errs.append("atomic permutation is not a permutation")
                        break
                    inv = np.argsort(a)
                    if tuple(int(y) for y in inv) not in ps:
                        errs.append("atomic_permutations not closed under inverse")
                        break
                    for b in arr[: min(len(arr), 6)]:
                        if tuple(int(y) for y in a[b]) not in ps:
                            errs.append("atomic_permutations not closed under composition")
                            break
                    if errs:
                        break
                if not errs:
                    for u in p2s:
                        sub = np.where(np.array(s2p) == u)[0]
                        imgs_a = sorted(int(x[u]) for x in arr)
                        inv_imgs = sorted(int(np.argsort(x)[u]) for x in arr)
                        if imgs_a != sorted(sub.tolist()) or inv_imgs != sorted(sub.tolist()):
                            errs.append("translations do not act simply transitively on the sublattice of atom %d" % u)
                            break
        return errs, N

    errs, N = invariants(prim)
    if not errs and via == "phonopy":
        # masses changed through the public setter reach primitive, supercell and unit-cell atoms consistently with the index maps
        newm = 1.0 + 50 * rng_from(spec["key"], 11).random(len(prim))
        ph.masses = newm
        prim, sc = ph.primitive, ph.supercell
        if not np.array_equal(np.asarray(prim.masses), newm):
            errs.append("masses setter: primitive masses are not the values set")
        else:
            e2, _ = invariants(prim)
            errs += ["after masses setter: " + x for x in e2]
            u2s = np.array(sc.u2s_map)
            if not errs and np.abs(np.asarray(ph.unitcell.masses) - np.asarray(sc.masses)[u2s]).max() > 1e-12:
                errs.append("after masses setter: unit-cell masses differ from those of their supercell atoms (u2s_map)")
    reordered = False
    if not errs and len(prim) >= 2:
        # the documented way to fix the order of primitive atoms: the same invariants must hold for the re-ordered cell
        from phonopy.structure.cells import Primitive

        order = rng_from(spec["key"], 7).permutation(len(prim))
        want = prim.scaled_positions[order]
        try:
            with contextlib.redirect_stdout(buf):
                prim2 = Primitive(sc, prim.primitive_matrix, store_dense_svecs=spec["dense_svecs"], positions_to_reorder=want)
        except Exception as e:
            return Out(ok=False, msg="Primitive(..., positions_to_reorder=<permutation %s of its own positions>) raised %r" % (order.tolist(), e))
        d = prim2.scaled_positions - want
        if np.abs(d - np.rint(d)).max() > 1e-6:
            errs.append("positions_to_reorder: atoms are not in the requested order")
        else:
            e2, _ = invariants(prim2)
            errs += ["with positions_to_reorder=%s: %s" % (order.tolist(), x) for x in e2]
            if not e2 and (list(prim2.symbols) != [prim.symbols[i] for i in order] or np.abs(prim2.masses - prim.masses[order]).max() > 1e-12 or
                           (prim.magnetic_moments is not None and np.abs(prim2.magnetic_moments - prim.magnetic_moments[order]).max() > 1e-12)):
                errs.append("with positions_to_reorder=%s: species/masses/moments do not follow the atoms" % order.tolist())
        reordered = True
    noisy = False
    if not errs and spec.get("loose") and which in ("right", "explicit") and not labelled_sub and cen != "P":
        # the tolerance given to the constructor is the one the primitive cell is built with: positions that fulfil the centring only
        # within 3e-3 Angstrom are a valid input at symprec=1e-2
        nrng = rng_from(spec["key"], 31)
        dcart = nrng.normal(size=(len(cell), 3))
        dcart *= (1.5e-3 * nrng.random(len(cell)) / np.linalg.norm(dcart, axis=1))[:, None]
        ncell = cell.copy()
        ncell.scaled_positions = cell.scaled_positions + dcart @ np.linalg.inv(cell.cell)
        try:
            with contextlib.redirect_stdout(buf):
                phn = Phonopy(ncell, supercell_matrix=np.diag([2, 1, 1]), primitive_matrix=pm, symprec=1e-2, log_level=0)
            ncen = len(CENTRING_VECS[cen])
            if len(phn.primitive) * ncen * 2 != len(phn.supercell):
                errs.append("symprec=1e-2, positions off by <= 1.5e-3: %d primitive atoms for %d supercell atoms of a %s-centred cell" % (
                    len(phn.primitive), len(phn.supercell), cen))
        except Exception as e:
            errs.append("symprec=1e-2 given to the constructor, positions fulfil the centring within 3e-3: rejected with %r" % (e,))
        noisy = True
    if errs:
        return Out(ok=False, msg="primitive cell (centring %s, request %r, labels %s, S=%s, snf=%s): %s"
                   % (cen, pm if not isinstance(pm, np.ndarray) else "explicit", spec["labels"], S.tolist(), spec["snf"], "; ".join(errs)))
    nontriv = cen != "P" or bool(np.any(S - np.diag(np.diag(S))))
    return Out(ok=True, nontrivial=nontriv, classes=["cen:" + cen, "req:" + which, spec["labels"], "N:%d" % min(N, 12),
                                                     "snf" if spec["snf"] else "classic"] + (["reordered"] if reordered else []) + (["symprec_1e-2_many_cells"] if spec.get("loose") else []) + (["noisy_positions_within_symprec"] if noisy else []))


# ------------------------------------------------------------------ primitive_matrix='auto' for any input cell


@st.composite
def auto_specs(draw, tier):
    from gen.crystals import crystal_specs

    T = draw(st.sampled_from([[1, 1, 1], [1, 1, 1], [2, 1, 1], [1, 2, 1], [1, 1, 2], [2, 2, 1], [1, 2, 3], [2, 2, 3], [3, 1, 1], [2, 2, 2]]))
    return {"crystal": draw(crystal_specs(max_unit=8, kinds=("hall", "proto", "centred"))), "T": T, "skew": draw(st.sampled_from([0, 0, 1, -1])),
            "symprec_noise": draw(st.sampled_from([0, 0, 1]))}


def run_auto(spec):
    """'auto' must give a really primitive cell that tiles the input cell, whatever cell of the crystal the user hands in (the
    conventional cell, a permuted or rotated one, a supercell): oracle = the pure translations of the input cell found by brute force."""
    from phonopy import Phonopy
    from phonopy.structure.atoms import PhonopyAtoms
    from phonopy.structure.cells import guess_primitive_matrix

    c = build_crystal(spec["crystal"])
    if c is None:
        return Out(nontrivial=False, classes=["discarded_overlap"])
    u = c["cell"]
    T = np.diag(spec["T"]).astype(int)
    if spec["skew"]:
        T[0, 1] = spec["skew"]  # a non-diagonal re-tiling (still a cell of the same crystal)
    if len(u) * int(round(abs(np.linalg.det(T)))) > 64:
        T = np.eye(3, dtype=int)
    # own re-tiling: lattice rows L' = T^T L, atoms = unit atoms + every lattice point inside the new cell
    L = np.array(u.cell)
    Ls = T.T @ L
    nimg = int(round(abs(np.linalg.det(T))))
    pts = []
    rngi = range(-int(np.abs(T).sum()) - 1, int(np.abs(T).sum()) + 2)
    Tinv = np.linalg.inv(T.T)
    for n in itertools.product(rngi, repeat=3):
        f = np.array(n) @ Tinv
        if np.all(f > -1e-9) and np.all(f < 1 - 1e-9):
            pts.append(n)
    if len(pts) != nimg:
        raise RuntimeError("own tiling found %d lattice points, expected %d" % (len(pts), nimg))
    pos, sym, mas = [], [], []
    for n in pts:
        pos.extend(((u.scaled_positions + np.array(n)) @ Tinv).tolist())
        sym.extend(u.symbols)
        mas.extend(u.masses.tolist())
    cell = PhonopyAtoms(symbols=sym, cell=Ls, scaled_positions=np.array(pos) % 1.0, masses=mas)
    pos, num = cell.scaled_positions, cell.numbers
    TOL = 1e-6
    trans = []
    for j in np.where((num == num[0]) & (np.abs(cell.masses - cell.masses[0]) < 1e-9))[0]:
        t = pos[j] - pos[0]
        d = pos[None, :, :] - (pos + t)[:, None, :]
        d -= np.rint(d)
        dist = np.linalg.norm(d @ Ls, axis=2)
        k = np.argmin(dist, axis=1)
        if (dist[np.arange(len(pos)), k] < TOL).all() and (num[k] == num).all() and (np.abs(cell.masses[k] - cell.masses) < 1e-9).all():
            trans.append(t - np.floor(t + 1e-9))
    trans = np.array(trans)
    n_t = len(trans)
    classes = ["kind:" + spec["crystal"]["kind"], "T:%s%s" % ("x".join(map(str, np.diag(T))), "+skew" if T[0, 1] else ""), "translations:%d" % min(n_t, 16)]
    try:
        M = guess_primitive_matrix(cell)
        ph = Phonopy(cell, supercell_matrix=np.eye(3, dtype=int), primitive_matrix="auto", log_level=0)
    except Exception as e:
        if np.linalg.det(Ls) < 0 and "has to be larger than 0" in str(e):
            # a left-handed basis: spglib's standardised cell is right-handed, so the matrix has a negative determinant, which the
            # constructor refuses with a clear message (a rejection, not a mis-built cell)
            return Out(ok=True, nontrivial=False, rejected=True, classes=classes + ["rejected_left_handed_basis"])
        return Out(ok=False, classes=classes, msg="primitive_matrix='auto' raised for a valid cell of the crystal (%d atoms, %d pure translations): %r" % (len(cell), n_t, e))
    errs = []
    if abs(abs(np.linalg.det(M)) * n_t - 1) > 1e-6:
        errs.append("|det| of the matrix is %.6f but the input cell contains %d lattice translations" % (abs(np.linalg.det(M)), n_t))
    for k in range(3):
        d = trans - M[:, k]
        d -= np.rint(d)
        if np.linalg.norm(d @ Ls, axis=1).min() > 1e-5:
            errs.append("column %d %s is not a lattice translation of the input structure" % (k, np.round(M[:, k], 6).tolist()))
    prim, sc = ph.primitive, ph.supercell
    if len(prim) * n_t != len(sc):
        errs.append("%d primitive atoms x %d translations != %d atoms" % (len(prim), n_t, len(sc)))
    else:
        pofs = np.array([prim.p2p_map[i] for i in prim.s2p_map])
        delta = (sc.positions - prim.positions[pofs]) @ np.linalg.inv(prim.cell)
        if np.abs(delta - np.rint(delta)).max() > 1e-6:
            errs.append("cell atoms are not primitive atoms plus primitive lattice vectors")
        if [sc.symbols[i] for i in prim.p2s_map] != list(prim.symbols):
            errs.append("species mismatch through p2s_map")
    if errs:
        return Out(ok=False, classes=classes, msg="primitive_matrix='auto' on a %d-atom cell (re-tiling %s of the generated cell): %s" % (len(cell), T.tolist(), "; ".join(errs)))
    return Out(ok=True, nontrivial=n_t >= 2, classes=classes)


SUBCHECKS = [
    Sub("supercell_enum", run=run_enum, enumerate=enum_specs, shards={"quick": 16, "thorough": 16},
        builds=["omp"], budget={"quick": 200, "thorough": 2400},
        what="every integer matrix with small entries, both algorithms: exact tiling or rejection; classic == SNF as sets"),
    Sub("supercell_random", run=run_random, strategy=random_cell_specs, examples={"quick": 1500, "thorough": 40000},
        shards={"quick": 6, "thorough": 16}, builds=["omp"],
        what="random unit cells (labels, masses, moments, outside [0,1)), entries up to 4, det<=12"),
    Sub("primitive", run=run_primitive, strategy=prim_specs, examples={"quick": 4000, "thorough": 40000},
        shards={"quick": 8, "thorough": 16}, budget={"quick": 100, "thorough": 1500},
        what="primitive cell tiles the supercell; maps consistent; translation permutations form a simply transitive group; invalid requests rejected"),
    Sub("auto_axes", run=run_auto, strategy=auto_specs, examples={"quick": 600, "thorough": 12000}, shards={"quick": 6, "thorough": 16},
        budget={"quick": 100, "thorough": 1500}, builds=["omp"],
        what="primitive_matrix='auto' for conventional, permuted/rotated and re-tiled (supercell) input cells: really primitive, columns are lattice translations, tiles the input"),
]
