"""C20 Equations of state and quasi-harmonic analysis recover known parameters."""
import numpy as np
from hypothesis import strategies as st

from vlib.case import Out, Sub, rng_from

PROPERTY = "C20"
TECHNIQUE = ("property-based testing (Hypothesis): defining identities of each EOS by Richardson finite differences; parameter "
             "recovery from exact-EOS data; pointwise comparison of each named EOS with an independent textbook closed form; QHA on synthetic free "
             "energies that are exactly that closed form at every temperature")
RULE = ("EOS parameters E0 in [-50,5] eV, B0 in [0.05,4] eV/A^3, B0' in [2,8], V0 in [5,500] A^3 for vinet | birch_murnaghan | "
        "murnaghan; volume grids of 5..14 points spanning 0.85..1.15 V0 (random spacing); QHA with smooth (also partly convex) "
        "parameter curves over 6..40 temperatures (uniform, piecewise-uniform and irregular grids), pressure 0 | +-(0.5..20) GPa, t_max, electronic energies of shape (V) and "
        "(T,V); inputs as lists, arrays, read-only arrays; two consecutive runs on the same input arrays. Non-trivial: "
        "T-dependent V0 and B0, >= 3 temperatures, P != 0 or (T,V) electronic term. Distinct by spec hash.")
ASSUMPTIONS = ["scipy (from the offline wheelhouse, /verif/.deps) performs the least-squares fit; a fit reported as failed is class rejected"]

EOS_NAMES = ["vinet", "birch_murnaghan", "murnaghan"]


def own_eos(name):
    """Textbook closed forms, written independently of phonopy's expressions (Eulerian-strain form of Birch-Murnaghan, the
    2 - (5 + 3 B'(x-1) - 3x) exp(...) form of Vinet, reduced-volume form of Murnaghan)."""
    def vinet(v, E0, B0, Bp, V0):
        x = np.cbrt(np.asarray(v, dtype=float) / V0)
        return E0 + 2 * B0 * V0 / (Bp - 1) ** 2 * (2 - (5 + 3 * Bp * (x - 1) - 3 * x) * np.exp(-1.5 * (Bp - 1) * (x - 1)))

    def birch_murnaghan(v, E0, B0, Bp, V0):
        f = ((V0 / np.asarray(v, dtype=float)) ** (2.0 / 3) - 1) / 2
        return E0 + 4.5 * B0 * V0 * f ** 2 * (1 + (Bp - 4) * f)

    def murnaghan(v, E0, B0, Bp, V0):
        r = np.asarray(v, dtype=float) / V0
        return E0 + B0 * V0 * (r ** (1 - Bp) / (Bp * (Bp - 1)) + r / Bp - 1 / (Bp - 1))

    return {"vinet": vinet, "birch_murnaghan": birch_murnaghan, "murnaghan": murnaghan}[name]


def deriv(f, x, h):
    d1 = (f(x + h) - f(x - h)) / (2 * h)
    d2 = (f(x + 2 * h) - f(x - 2 * h)) / (4 * h)
    return (4 * d1 - d2) / 3


@st.composite
def eos_specs(draw, tier):
    return {"eos": draw(st.sampled_from(EOS_NAMES)), "E0": draw(st.floats(-50, 5)), "B0": draw(st.floats(0.05, 4)), "Bp": draw(st.floats(2, 8)),
            "V0": draw(st.floats(5, 500)), "key": draw(st.integers(0, 2**32 - 1)), "npts": draw(st.sampled_from([4, 4, 5, 6, 7, 8, 9, 10, 12, 14])),
            "lo": draw(st.floats(0.85, 0.97)), "hi": draw(st.floats(1.03, 1.15))}


def run_eos(spec):
    from phonopy.qha.eos import fit_to_eos, get_eos

    eos = get_eos(spec["eos"])
    E0, B0, Bp, V0 = spec["E0"], spec["B0"], spec["Bp"], spec["V0"]

    def E(v):
        return eos(v, E0, B0, Bp, V0)

    # the function handed out under this name is THIS equation of state (not merely one with the same parameter meaning)
    vv = V0 * np.linspace(0.7, 1.4, 29)
    dev = np.abs(E(vv) - own_eos(spec["eos"])(vv, E0, B0, Bp, V0)).max() / (B0 * V0)
    if dev > 1e-12:
        return Out(ok=False, msg="get_eos(%r) is not the %s equation of state: deviates from the textbook closed form by %.3e B0 V0 "
                   "(E0=%g B0=%g B0'=%g V0=%g)" % (spec["eos"], spec["eos"], dev, E0, B0, Bp, V0))
    h = V0 * 2e-3

    def P(v):
        return -deriv(E, v, h)

    def B(v):
        return -v * deriv(P, v, h)

    errs = {"E(V0)=E0": abs(E(V0) - E0) / max(1, abs(E0)), "P(V0)=0": abs(P(V0)) / B0, "V d2E/dV2 = B0": abs(B(V0) - B0) / B0,
            "dB/dP = B0'": abs(deriv(B, V0, 2 * h) / deriv(P, V0, 2 * h) - Bp) / Bp}
    for k, v in errs.items():
        if not v < (1e-10 if k == "E(V0)=E0" else 2e-6):
            return Out(ok=False, msg="%s: defining identity %s violated: rel %.3e (E0=%g B0=%g B0'=%g V0=%g)" % (spec["eos"], k, v, E0, B0, Bp, V0))
    rng = rng_from(spec["key"])
    V = V0 * np.sort(np.concatenate([[spec["lo"], spec["hi"]], rng.uniform(spec["lo"], spec["hi"], size=spec["npts"] - 2)]))
    if np.diff(V).min() < 1e-4 * V0:
        return Out(nontrivial=False, classes=["skipped"])
    Ev = E(V)
    Vc, Ec = V.copy(), Ev.copy()
    realistic = 0.1 <= B0 <= 3 and 3 <= Bp <= 7 and 10 <= V0 <= 300
    try:
        p = fit_to_eos(V, Ev, eos)
    except RuntimeError as e:
        if "itting to EOS" in str(e):
            if realistic:
                # four parameters, >= 4 exact points of the very function being fitted, ordinary magnitudes: nothing to refuse
                return Out(ok=False, msg="fit_to_eos refuses exact %s data (%d volumes in [%.3f, %.3f] V0; E0=%g B0=%g B0'=%g V0=%g): %s"
                           % (spec["eos"], len(V), spec["lo"], spec["hi"], E0, B0, Bp, V0, e))
            return Out(nontrivial=False, rejected=True, classes=["fit_refused:" + spec["eos"], "extreme"])
        return Out(ok=False, msg="fit_to_eos raised %r on exact %s data" % (e, spec["eos"]))
    except Exception as e:
        return Out(ok=False, msg="fit_to_eos raised %r on exact %s data" % (e, spec["eos"]))
    if p is None:
        return Out(nontrivial=False, rejected=True, classes=["fit_not_converged"])
    if not realistic:
        # extreme parameter sets (tiny B0 with tiny V0, ...): phonopy's start values can lead scipy's least squares to a spurious
        # local minimum; parameter recovery is asserted in the realistic range only (the defining identities above hold everywhere)
        return Out(ok=True, nontrivial=True, classes=[spec["eos"], "extreme_parameters_fit_not_asserted"], info={"err": max(errs.values())})
    if not (np.array_equal(V, Vc) and np.array_equal(Ev, Ec)):
        return Out(ok=False, msg="fit_to_eos modified its input arrays")
    e = max(abs(p[0] - E0) / max(1, abs(E0)), abs(p[1] - B0) / B0, abs(p[2] - Bp) / Bp, abs(p[3] - V0) / V0)
    if e > 1e-4:
        resid = np.abs(eos(V, *p) - Ev).max() / max(np.ptp(Ev), 1e-300)
        if resid <= 1e-6:
            # the returned curve reproduces the data to 1e-6 of their range: are the parameter deviations what such a residual means for THIS
            # data set (few points, narrow volume window: B0' is then determined to a few 1e-4 only)? Linearised: dp = pinv(J) r.
            own = own_eos(spec["eos"])
            p0 = np.array([E0, B0, Bp, V0], dtype=float)
            scale = np.array([max(1.0, abs(E0)), B0, Bp, V0])
            J = np.zeros((len(V), 4))
            for k in range(4):
                dp = np.zeros(4)
                dp[k] = 1e-6 * scale[k]
                J[:, k] = (own(V, *(p0 + dp)) - own(V, *(p0 - dp))) / 2e-6
            pred = np.abs(np.linalg.pinv(J)) @ np.abs(eos(V, *p) - Ev)
            ek = np.abs(np.array(p, dtype=float) - p0) / scale
            if (ek <= 10 * pred + 1e-4).all():
                return Out(ok=True, nontrivial=True, classes=[spec["eos"], "npts:%d" % len(V), "ill_conditioned_data_set"], info={"err": max(errs.values())})
        if resid > 1e-6:
            # signature of known finding F-v: scipy's local least squares, started from phonopy's fixed guess, stopped in a spurious
            # local minimum (the returned curve does NOT reproduce the data). A wrong parameter MEANING would have zero residual.
            return Out(ok=True, nontrivial=False, classes=["excluded_known:F-v", spec["eos"]], info={"resid": float(resid)})
        return Out(ok=False, info={"err": e}, msg="fit_to_eos on exact %s data returns %s instead of (E0,B0,B0',V0)=(%g,%g,%g,%g): rel %.3e"
                   % (spec["eos"], np.array(p).tolist(), E0, B0, Bp, V0, e))
    return Out(ok=True, nontrivial=True, classes=[spec["eos"], "npts:%d" % len(V)], info={"err": max(max(errs.values()), e)})


@st.composite
def qha_specs(draw, tier):
    return {"eos": draw(st.sampled_from(EOS_NAMES)), "key": draw(st.integers(0, 2**32 - 1)), "nT": draw(st.integers(6, 40)), "nV": draw(st.sampled_from([4, 5, 5, 6, 7, 8, 9, 11, 13])),
            "epf": draw(st.sampled_from([None, None, 2.5, 96.485])), "vorder": draw(st.sampled_from(["ascending", "ascending", "descending", "shuffled"])),
            "dT": draw(st.sampled_from([10.0, 25.0, 50.0])), "pressure": draw(st.sampled_from([None, None, 0.5, 3.0, 7.0, 20.0, -2.0])),
            "el": draw(st.sampled_from(["zeros", "V", "TV"])), "t_max": draw(st.sampled_from([None, None, "inner"])),
            "tgrid": draw(st.sampled_from(["uniform", "uniform", "piecewise", "irregular"])),
            "v0_range": draw(st.sampled_from(["inside", "inside", "above_at_high_T", "below_at_low_T"])),
            "convex": draw(st.booleans()), "container": draw(st.sampled_from(["array", "list", "readonly"])), "twice": draw(st.booleans()),
            "call": draw(st.sampled_from(["keywords", "keywords", "positional"]))}


def run_qha(spec):
    from phonopy import PhonopyQHA
    from phonopy.qha.eos import get_eos
    from phonopy.units import EVAngstromToGPa, EvTokJmol

    rng = rng_from(spec["key"])
    eos = own_eos(spec["eos"])  # the data are exactly the named equation of state in OUR closed form
    nT, nV = spec["nT"], spec["nV"]
    T = np.arange(nT) * spec["dT"]
    if spec.get("tgrid") == "piecewise":  # step changes in the middle of the range
        steps = np.where(np.arange(nT - 1) < nT // 2, spec["dT"], 4 * spec["dT"])
        T = np.concatenate([[0.0], np.cumsum(steps)])
    elif spec.get("tgrid") == "irregular":
        T = np.concatenate([[0.0], np.cumsum(rng.uniform(0.3, 2.0, size=nT - 1) * spec["dT"])])
    x = T / max(T[-1], 1.0)
    V0 = 60 * (1 + rng.uniform(0.005, 0.05) * x + rng.uniform(0, 0.02) * x ** 2)
    # the equilibrium volume need not lie between the smallest and largest volume point at every temperature (strong expansion, or
    # a pressure term): the data are still exactly the EOS, so the parameters are the known ones
    if spec.get("v0_range") == "above_at_high_T":
        V0 = 60 * (1.10 + 0.085 * x)
    elif spec.get("v0_range") == "below_at_low_T":
        V0 = 60 * (0.862 + 0.06 * x)
    # (an equilibrium volume 15 % outside the sampled range was tried and withdrawn: the extrapolated four-parameter fit then runs into the
    # start-value problem of known finding F-v on the unchanged tree)
    B0 = 0.6 * (1 - rng.uniform(0.02, 0.3) * x)
    Bp = 4.5 + rng.uniform(-0.5, 0.5) * x
    E0 = -10 - rng.uniform(0.01, 0.5) * x ** 2
    if spec["convex"]:
        E0 = E0 + 0.05 * np.sin(3.0 * np.pi * x)  # partly convex G(T): C_P by the documented formula may be negative
    V = np.sort(60 * np.concatenate([[0.88, 1.16], rng.uniform(0.88, 1.16, size=nV - 2)]))
    if np.diff(V).min() < 0.05:
        return Out(nontrivial=False, classes=["skipped"])
    Fexact = np.array([eos(V, e, b, bp, v) for e, b, bp, v in zip(E0, B0, Bp, V0)])  # eV, exactly an EOS at each T
    Pg = spec["pressure"]
    PV = np.zeros_like(V) if Pg is None else V * Pg / EVAngstromToGPa
    # split the exact EOS into phonon part, electronic part and -PV so that the documented sum F_ph + F_el + PV is the EOS
    if spec["el"] == "zeros":
        el = np.zeros(nV)
        el_T = np.zeros((nT, nV))
    elif spec["el"] == "V":
        el = rng.normal(size=nV)
        el_T = np.repeat(el[None, :], nT, axis=0)
    else:
        el_T = rng.normal(size=(nT, nV)) + np.sin(T / 100.0)[:, None]
        el = el_T
    Fph = (Fexact - el_T - PV[None, :]) * EvTokJmol  # kJ/mol
    cv = rng.uniform(0, 25, size=(nT, nV))
    S = rng.uniform(0, 50, size=(nT, nV))
    t_max = None
    if spec["t_max"] == "inner" and nT >= 8:
        t_max = float(T[nT // 2])

    def wrap(a):
        a = np.array(a, dtype="double")
        if spec["container"] == "list":
            return a.tolist()
        if spec["container"] == "readonly":
            a.setflags(write=False)
        return a

    # the volume points need not be listed in ascending order: every per-volume input is permuted alike
    vo = spec.get("vorder", "ascending")
    perm = np.arange(nV) if vo == "ascending" else (np.arange(nV)[::-1] if vo == "descending" else rng_from(spec["key"], 41).permutation(nV))
    inputs = {"volumes": wrap(V[perm]), "electronic_energies": wrap(np.asarray(el)[..., perm]), "temperatures": wrap(T), "free_energy": wrap(Fph[:, perm]),
              "cv": wrap(cv[:, perm]), "entropy": wrap(S[:, perm])}
    snap = {k: np.array(v, dtype="double", copy=True) for k, v in inputs.items()}
    results = []
    for rep in range(2 if spec["twice"] else 1):
        try:
            if spec.get("call") == "positional":
                # the documented parameter order: volumes, electronic_energies, temperatures, free_energy, cv, entropy
                q = PhonopyQHA(inputs["volumes"], inputs["electronic_energies"], inputs["temperatures"], inputs["free_energy"], inputs["cv"],
                               inputs["entropy"], eos=spec["eos"], pressure=Pg, t_max=t_max, verbose=False, energy_plot_factor=spec.get("epf"))
            else:
                q = PhonopyQHA(eos=spec["eos"], pressure=Pg, t_max=t_max, verbose=False, energy_plot_factor=spec.get("epf"), **inputs)
        except RuntimeError as e:
            if "fitting to EOS" in str(e) or "Fitting to EOS" in str(e):
                # scipy's least squares met a numerical warning on the way: documented refusal, never a wrong answer
                return Out(nontrivial=False, rejected=True, classes=["fit_refused:" + spec["eos"]])
            return Out(ok=False, msg="PhonopyQHA raised %r (container %s, pressure %r, el %s)" % (e, spec["container"], Pg, spec["el"]))
        except Exception as e:
            return Out(ok=False, msg="PhonopyQHA raised %r (container %s, pressure %r, el %s)" % (e, spec["container"], Pg, spec["el"]))
        for k, v in inputs.items():
            if not np.array_equal(np.array(v, dtype="double"), snap[k]):
                return Out(ok=False, msg="PhonopyQHA modified the caller's %s array (pressure %r, container %s)" % (k, Pg, spec["container"]))
        results.append(q)
    q = results[-1]
    n = len(q.volume_temperature)
    if t_max is not None:
        want = int((T <= t_max).sum())
        if len(q.thermal_expansion) != want:
            return Out(ok=False, msg="t_max=%g selects %d temperature points, documented %d" % (t_max, len(q.thermal_expansion), want))
    elif not (nT - 2 <= len(q.thermal_expansion) <= nT - 1):
        # docstring: 'third element from the end'; code: all but the last. Either is accepted, the curves are what is asserted.
        return Out(ok=False, msg="without t_max %d of %d temperature points are returned" % (len(q.thermal_expansion), nT))
    m = len(q.thermal_expansion)
    errs = {
        "equilibrium volume": np.abs(np.array(q.volume_temperature)[:m] - V0[:m]).max() / 60,
        "Gibbs energy": np.abs(np.array(q.gibbs_temperature)[:m] - E0[:m]).max() / 10,
        "bulk modulus": np.abs(np.array(q.bulk_modulus_temperature)[:m] / EVAngstromToGPa - B0[:m]).max() / 0.6,
    }
    beta = [0.0] + [(V0[i + 1] - V0[i - 1]) / (T[i + 1] - T[i - 1]) / V0[i] for i in range(1, m)]
    errs["thermal expansion"] = np.abs(np.array(q.thermal_expansion) - np.array(beta)[:m]).max() / max(np.abs(beta).max(), 1e-12)
    g = E0 * EvTokJmol * 1000
    cp = [0.0]
    for i in range(1, m):
        pf = np.polyfit(T[i - 1:i + 2], g[i - 1:i + 2], 2)
        cp.append(-2 * pf[0] * T[i])
    cpn = np.array(q.heat_capacity_P_numerical)
    errs["C_P (numerical)"] = np.abs(cpn - np.array(cp)[:len(cpn)]).max() / max(np.abs(cp).max(), 1e-9)
    fv = None
    for k, v in errs.items():
        tol = 1e-4 if k not in ("thermal expansion", "C_P (numerical)") else 2e-3
        if not v < tol:
            if fv is None:
                # signature of known finding F-v inside the QHA: the very fit QHA performs at some temperature (same function, same data)
                # returns a curve that does not reproduce its exact-EOS input - scipy stopped in a spurious minimum
                from phonopy.qha.eos import fit_to_eos

                fv = False
                for i in range(m + 1 if m + 1 <= nT else m):
                    try:
                        pi_ = fit_to_eos(V, Fexact[i], get_eos(spec["eos"]))
                    except Exception:
                        continue
                    if pi_ is not None and np.abs(eos(V, *pi_) - Fexact[i]).max() / max(np.ptp(Fexact[i]), 1e-300) > 1e-6:
                        fv = True
                        break
            if fv:
                return Out(ok=True, nontrivial=False, classes=["excluded_known:F-v", spec["eos"]])
            return Out(ok=False, info={"err": float(v)}, msg="QHA %s differs from the known curve: rel %.3e (eos %s, pressure %r GPa, electronic %s, t_max %r, "
                       "container %s, run #%d)" % (k, v, spec["eos"], Pg, spec["el"], t_max, spec["container"], len(results)))
    # writing the result files is read-only with respect to the results
    import os
    import shutil
    import tempfile

    def snapshot(qq):
        return [np.array(x, dtype=float, copy=True) for x in (qq.volume_temperature, qq.gibbs_temperature, qq.bulk_modulus_temperature, qq.thermal_expansion,
                                                               qq.heat_capacity_P_numerical, qq.helmholtz_volume)]

    before = snapshot(q)
    tdir = tempfile.mkdtemp(prefix="c20-", dir=os.environ.get("VERIF_TMP", "/var/tmp"))
    cwd = os.getcwd()
    os.chdir(tdir)
    try:
        q.write_helmholtz_volume()
        q.write_helmholtz_volume_fitted(thin_number=3)
        q.write_helmholtz_volume_fitted(thin_number=2)
        q.write_volume_temperature()
        q.write_thermal_expansion()
        q.write_gibbs_temperature()
        q.write_bulk_modulus_temperature()
        q.write_heat_capacity_P_numerical()
        q.write_gruneisen_temperature()
    except Exception as e:
        return Out(ok=False, msg="a write_* method of PhonopyQHA raised %r (energy_plot_factor %r)" % (e, spec.get("epf")))
    finally:
        os.chdir(cwd)
        shutil.rmtree(tdir, ignore_errors=True)
    for name, x, y in zip(("volume_temperature", "gibbs_temperature", "bulk_modulus_temperature", "thermal_expansion", "heat_capacity_P_numerical",
                           "helmholtz_volume"), before, snapshot(q)):
        if x.shape != y.shape or not np.array_equal(x, y):
            return Out(ok=False, msg="PhonopyQHA.%s changed after the write_* methods were called (energy_plot_factor %r): max change %.3e"
                       % (name, spec.get("epf"), float(np.abs(x - y).max()) if x.shape == y.shape else -1))
    if len(results) == 2:
        a, b = results
        if np.abs(np.array(a.volume_temperature) - np.array(b.volume_temperature)).max() > 1e-12:
            return Out(ok=False, msg="two consecutive analyses of the same input arrays differ")
    nontriv = nT >= 3 and (Pg is not None or spec["el"] == "TV")
    return Out(ok=True, nontrivial=nontriv, classes=[spec["eos"], "P:%s" % ("none" if Pg is None else "set"), "el:" + spec["el"],
                                                     "tmax" if t_max else "notmax", "tgrid:" + spec.get("tgrid", "uniform"), "v0:" + spec.get("v0_range", "inside"), "call:" + spec.get("call", "keywords"), "nV:%d" % nV, "epf:%s" % spec.get("epf"), "volumes:" + vo, "convex" if spec["convex"] else "concave", spec["container"]],
               info={"err": float(max(errs.values()))})


FV_SPEC = {"eos": "vinet", "E0": 0.0, "B0": 2.4296875, "Bp": 3.3125, "V0": 10.0, "key": 45723, "npts": 13, "lo": 0.9649949583481886,
           "hi": 1.1357876352843919}


def _repro_fv():
    out = run_eos(dict(FV_SPEC))
    return "excluded_known:F-v" in out["classes"]


KNOWN_REPRO = {"F-v": _repro_fv}

SUBCHECKS = [
    Sub("eos", run=run_eos, strategy=eos_specs, examples={"quick": 3000, "thorough": 100000}, shards={"quick": 6, "thorough": 16}, builds=["omp"],
        what="E(V0)=E0, P(V0)=0, V E''=B0, dB/dP=B0' by finite differences; fit_to_eos recovers the parameters from exact data"),
    Sub("qha", run=run_qha, strategy=qha_specs, examples={"quick": 400, "thorough": 12000}, shards={"quick": 8, "thorough": 16}, builds=["omp"],
        budget={"quick": 120, "thorough": 2400},
        what="exact-EOS free energies: V(T), G(T), B(T), thermal expansion, C_P(numerical), +PV, (T,V) electronic term, t_max, inputs unmodified"),
]
