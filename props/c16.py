"""C16 Saving and reloading a calculation reproduces it."""
import os
import shutil
import tempfile

import numpy as np
from hypothesis import strategies as st

from gen.crystals import build_crystal, crystal_specs, keys
from oracles.models import dense_fc, own_ops, springs_fc, sym_nac
from vlib.case import Out, Sub, rng_from

PROPERTY = "C16"
TECHNIQUE = ("property-based testing (Hypothesis): write/parse round trips (save()/load(), FORCE_SETS, FORCE_CONSTANTS, hdf5, "
             "BORN) compared within the half-ulp of each printed format; sequences of saves in one process")
RULE = ("Phonopy objects built from generated crystals (extended symbols such as Cl1, custom masses, magnetic moments), diagonal and general (non-symmetric) supercell matrices, dataset "
        "type 1 / type 2 (with energies) / displacements without forces / none, force constants full | compact | none, NAC none | wang | gonze, calculator in "
        "the 16 interfaces or None, settings dictionaries, compression off | xz; value magnitudes 1e-12..1e8 (classes counted). "
        "Always in a fresh empty temporary working directory. Non-trivial: >= 2 optional sections present. Distinct by spec hash.")
ASSUMPTIONS = [
    "tolerance per field = half a unit of the last printed digit of its format + 4 eps |value| (yaml: lattice %21.15f, positions "
    "%19.15f, masses %f, displacements/forces %21.15f; FORCE_SETS %15.10f / %15.8f; FORCE_CONSTANTS %22.15f; BORN %13.8f)",
    "load() is called in an otherwise empty directory; half of the cases with NAC in the yaml put a stray BORN file there, which the documented priority says is not to be read",
]
CALCS = [None, "vasp", "qe", "abinit", "wien2k", "elk", "siesta", "cp2k", "crystal", "dftbp", "turbomole", "aims", "castep", "fleur", "abacus", "lammps", "pwmat"]
EPS = np.finfo(float).eps


def close(a, b, half_ulp):
    a, b = np.asarray(a, dtype=float), np.asarray(b, dtype=float)
    if a.shape != b.shape:
        return False, float("inf")
    if a.size == 0:
        return True, 0.0
    d = np.abs(a - b)
    lim = half_ulp * 1.02 + 4 * EPS * np.abs(b)
    return bool((d <= lim).all()), float((d - lim).max())


class TmpCwd:
    def __enter__(self):
        self.cwd = os.getcwd()
        self.td = tempfile.mkdtemp(prefix="c16-", dir=os.environ.get("VERIF_TMP", "/var/tmp"))
        os.chdir(self.td)
        return self.td

    def __exit__(self, *a):
        os.chdir(self.cwd)
        shutil.rmtree(self.td, ignore_errors=True)


@st.composite
def sl_specs(draw, tier):
    cs = draw(crystal_specs(max_unit=4, kinds=("hall", "proto", "centred", "p1"), masses=True))
    from gen.crystals import supercell_matrices

    return {"crystal": cs, "key": draw(keys), "n": draw(st.sampled_from([[1, 1, 1], [2, 1, 1], [1, 2, 1], [2, 2, 1]])),
            "smat": draw(st.one_of(st.none(), supercell_matrices(max_det=4))),  # None: the diagonal matrix n
            "pmat": draw(st.sampled_from(["none", "auto"])), "labels": draw(st.booleans()), "magmom": draw(st.sampled_from(["none", "none", "collinear"])),
            "dataset": draw(st.sampled_from(["type1", "type1_energies", "type2", "type2_energies", "none", "type1_noforces", "type2_noforces"])),
            # energies as absolute numbers, or relative to the first supercell (then the first one is exactly 0.0)
            "energy_ref": draw(st.sampled_from(["absolute", "first_supercell"])),
            "fc": draw(st.sampled_from(["full", "compact", "none"])), "nac": draw(st.sampled_from(["none", "wang", "gonze"])),
            "calc": draw(st.sampled_from(CALCS)), "compression": draw(st.sampled_from([False, False, "xz", True])),
            "settings": draw(st.sampled_from([None, {"force_constants": True}, {"force_constants": False}, {"force_sets": False},
                                              {"born_effective_charge": False, "dielectric_constant": False}, {"displacements": False}])),
            "mag": draw(st.sampled_from([1.0, 1.0, 1e-9, 1e4, 1e7])), "load_compact": draw(st.booleans()),
            "prior_light_save": draw(st.booleans()), "set_masses": draw(st.sampled_from([False, False, True])),
            "stray_born": draw(st.booleans()), "fc_file": draw(st.booleans())}


def build_phonopy(spec):
    from phonopy import Phonopy
    from phonopy.structure.atoms import PhonopyAtoms

    c = build_crystal(spec["crystal"])
    if c is None:
        return None
    cell = c["cell"]
    rng = rng_from(spec["key"])
    symbols = list(cell.symbols)
    masses = cell.masses
    if spec["labels"]:
        uniq = sorted(set(symbols))
        symbols = [s + "1" if s == uniq[0] else s for s in symbols]
    mag = None
    if spec["magmom"] == "collinear":
        mag = np.round(rng.normal(size=len(symbols)), 3).tolist()
    cell = PhonopyAtoms(symbols=symbols, cell=cell.cell, scaled_positions=cell.scaled_positions, masses=masses, magnetic_moments=mag)
    S = np.diag(spec["n"]) if spec.get("smat") is None else np.array(spec["smat"])
    if len(cell) * int(round(abs(np.linalg.det(S)))) > 24:
        return None
    from phonopy.interface.calculator import get_default_physical_units

    try:
        # the object is built with its calculator's default unit factor, which is what load() assumes for that calculator
        ph = Phonopy(cell, supercell_matrix=S, primitive_matrix=None if spec["pmat"] == "none" or mag is not None else "auto",
                     calculator=spec["calc"], factor=get_default_physical_units(spec["calc"])["factor"], log_level=0)
    except Exception:
        return None
    n = len(ph.supercell)
    fc = springs_fc(ph.supercell) * spec["mag"]
    if spec["dataset"] == "type1_noforces":
        ph.generate_displacements(distance=0.03)
    elif spec["dataset"] == "type2_noforces":
        ph.generate_displacements(number_of_snapshots=3, random_seed=int(spec["key"]) % 1000, distance=0.03)
    elif spec["dataset"] in ("type1", "type1_energies"):
        ph.generate_displacements(distance=0.03)
        forces = []
        for d in ph.dataset["first_atoms"]:
            u = np.zeros((n, 3))
            u[d["number"]] = d["displacement"]
            forces.append(-np.einsum("ijab,jb->ia", fc, u))
        ph.forces = forces
        if spec["dataset"] == "type1_energies":
            en = rng.normal(size=len(forces)) * spec["mag"]
            if spec.get("energy_ref") == "first_supercell":
                en = en - en[0]
            ph.supercell_energies = en.tolist()
    elif spec["dataset"].startswith("type2"):
        ph.generate_displacements(number_of_snapshots=3, random_seed=int(spec["key"]) % 1000, distance=0.03)
        ph.forces = [-np.einsum("ijab,jb->ia", fc, u) for u in ph.dataset["displacements"]]
        if spec["dataset"].endswith("energies"):
            en = rng.normal(size=3) * spec["mag"]
            if spec.get("energy_ref") == "first_supercell":
                en = en - en[0]
            ph.supercell_energies = en.tolist()
    if spec["fc"] != "none":
        ph.force_constants = np.array(fc[ph.primitive.p2s_map], order="C") if spec["fc"] == "compact" else fc.copy()
    if spec["nac"] != "none":
        try:
            Z, eps = sym_nac(ph.primitive, rng)
        except ValueError:
            return None
        ph.nac_params = {"born": Z, "dielectric": eps, "factor": 14.4, "method": spec["nac"]}
    if spec.get("set_masses") and mag is None:
        # e.g. an isotope substitution made on the finished object
        ph.masses = 1.0 + np.round(60 * rng_from(spec["key"], 23).random(len(ph.primitive)), 4)
    return ph


def cells_equal(a, b, what, amp=1.0):
    # unit cell: as printed; supercell / primitive cell are rebuilt from it on load: integer (or centring-fraction) combinations of
    # three printed numbers each, so the half-ulp of the text is amplified by amp = 3 * max|matrix entry| (+ rounding)
    ok, d = close(a.cell, b.cell, 0.5e-15 if what == "unitcell" else 4e-15 * max(1.5, amp))
    if not ok:
        return "%s lattice differs by more than the %%21.15f half-ulp (excess %.2e)" % (what, d)
    da = a.scaled_positions - b.scaled_positions
    da -= np.rint(da)
    if np.abs(da).max() > (0.51e-15 if what == "unitcell" else 4e-15 * max(1.5, amp)) + 8 * EPS:
        return "%s positions differ: %.3e" % (what, np.abs(da).max())
    if list(a.symbols) != list(b.symbols):
        return "%s symbols differ: %s vs %s" % (what, a.symbols, b.symbols)
    ok, d = close(a.masses, b.masses, 0.5e-6)
    if not ok:
        return "%s masses differ beyond the %%f half-ulp (excess %.2e)" % (what, d)
    ma, mb = a.magnetic_moments, b.magnetic_moments
    if (ma is None) != (mb is None) or (ma is not None and np.abs(np.asarray(ma) - np.asarray(mb)).max() > 0.51e-8):
        return "%s magnetic moments differ" % what
    return None


def run_save_load(spec):
    import phonopy

    ph = build_phonopy(spec)
    if ph is None:
        return Out(nontrivial=False, classes=["discarded"])
    with TmpCwd():
        if spec["prior_light_save"]:
            # a previous save with switches turned off must not leak into the next one
            ph.save("light.yaml", settings={"force_sets": False, "displacements": False, "born_effective_charge": False, "dielectric_constant": False,
                                            "force_constants": False})
        settings = spec["settings"]
        fn = ph.save("p.yaml", settings=dict(settings) if settings else None, compression=spec["compression"])
        if not os.path.exists(fn):
            return Out(ok=False, msg="save() returned %r which does not exist" % fn)
        os.makedirs("empty", exist_ok=True)
        os.chdir("empty")
        stray = bool(spec.get("stray_born")) and ph.nac_params is not None and (settings or {}).get("born_effective_charge", True) and \
            (settings or {}).get("dielectric_constant", True)
        if stray:
            # documented priority of load(): NAC parameters of the yaml file (3) come before a 'BORN' file lying in the directory (4)
            npr = len(ph.primitive)
            with open("BORN", "w") as w:
                w.write("# stray file of another calculation\n")
                w.write(" ".join(["%.8f" % x for x in (np.eye(3) * 7.25).ravel()]) + "\n")
                for _ in range(npr):
                    w.write(" ".join(["%.8f" % x for x in (np.eye(3) * 0.0).ravel()]) + "\n")
        try:
            ph2 = phonopy.load(os.path.join("..", fn), produce_fc=False, is_compact_fc=spec["load_compact"], log_level=0)
        except Exception as e:
            return Out(ok=False, msg="load(save()) raised %r (settings %r, compression %r)" % (e, settings, spec["compression"]))
        os.chdir("..")
        s = settings or {}
        errs = []
        for nm in ("unitcell", "supercell", "primitive"):
            # error propagation of the printed half-ulp through the integer (supercell) and fractional (primitive) re-tiling: every
            # entry of a derived lattice is a combination sum_j M_ij L_j of printed numbers, so the bound is the largest absolute
            # row/column sum of M (for the primitive cell: of S^T and of the primitive matrix relative to the supercell, multiplied)
            Sm = np.array(ph.supercell_matrix, dtype=float)
            amp_s = float(max(np.abs(Sm).sum(axis=0).max(), np.abs(Sm).sum(axis=1).max()))
            Pm = np.eye(3) if ph.primitive_matrix is None else np.array(ph.primitive_matrix, dtype=float)
            Mp = np.linalg.inv(Sm) @ Pm
            amp_p = amp_s * float(max(np.abs(Mp).sum(axis=0).max(), np.abs(Mp).sum(axis=1).max(), 1.0))
            e = cells_equal(getattr(ph2, nm), getattr(ph, nm), nm, amp={"unitcell": 1.0, "supercell": amp_s, "primitive": amp_p}[nm] / 4.0)
            if e:
                errs.append(e)
        if not np.array_equal(ph2.supercell_matrix, ph.supercell_matrix):
            errs.append("supercell_matrix differs")
        pm1 = np.eye(3) if ph.primitive_matrix is None else np.array(ph.primitive_matrix)
        pm2 = np.eye(3) if ph2.primitive_matrix is None else np.array(ph2.primitive_matrix)
        if np.abs(pm2 - pm1).max() > 0.51e-15:
            errs.append("primitive_matrix differs")
        if ph2.calculator != ph.calculator:
            errs.append("calculator %r reloaded as %r" % (ph.calculator, ph2.calculator))
        # dataset
        want_disp = s.get("displacements", True) and ph.dataset is not None
        want_forces = s.get("force_sets", True) and ph.dataset is not None and not spec["dataset"].endswith("noforces")
        if want_disp:
            if ph2.dataset is None:
                errs.append("dataset missing after reload")
            else:
                from phonopy.structure.dataset import get_displacements_and_forces

                d1, f1 = get_displacements_and_forces(ph.dataset)
                d2, f2 = get_displacements_and_forces(ph2.dataset)
                ok, dd = close(d2, d1, 0.5e-15)
                if not ok:
                    errs.append("displacements differ beyond the printed precision (excess %.2e)" % dd)
                if ("first_atoms" in ph.dataset) != ("first_atoms" in ph2.dataset):
                    errs.append("dataset type changed on reload")
                if want_forces:
                    if f2 is None:
                        errs.append("forces missing after reload")
                    else:
                        ok, dd = close(f2, f1, 0.5e-15)
                        if not ok:
                            errs.append("forces differ beyond the %%21.15f half-ulp (excess %.2e, magnitude class %g)" % (dd, spec["mag"]))
                    if "supercell_energies" in ph.dataset:
                        e2 = ph2.dataset.get("supercell_energies")
                        if e2 is None or not close(e2, ph.dataset["supercell_energies"], 0.5e-15)[0]:
                            errs.append("supercell energies lost or changed on reload")
                    e1a, e2a = ph.supercell_energies, ph2.supercell_energies
                    etol = 0.5e-8 if "first_atoms" in ph.dataset else 0.5e-15  # type 1: %.8f per entry; type 2: %.16f
                    if e1a is not None and (e2a is None or np.shape(e2a) != np.shape(e1a) or not close(e2a, e1a, etol)[0]):
                        errs.append("supercell energies %s reloaded as %s" % (np.asarray(e1a).tolist(), None if e2a is None else np.asarray(e2a).tolist()))
        # force constants
        fc_written = s.get("force_constants") is True or (s.get("force_constants") is None and ph.force_constants is not None and
                                                          not (want_forces and ph.dataset is not None and s.get("force_sets", True)))
        if s.get("force_constants") is None and ph.force_constants is not None:
            from phonopy.structure.dataset import forces_in_dataset

            fc_written = not forces_in_dataset(ph.dataset)
        if fc_written and ph.force_constants is not None:
            if ph2.force_constants is None:
                errs.append("force constants missing after reload")
            else:
                want = ph.force_constants
                got = ph2.force_constants
                p2s = ph.primitive.p2s_map
                if got.shape[0] != want.shape[0]:
                    if want.shape[0] == want.shape[1]:
                        want = want[p2s]
                    else:
                        got = got[p2s]
                ok, dd = close(got, want, 0.5e-15)
                if not ok:
                    errs.append("force constants differ beyond the %%21.15f half-ulp (excess %.2e, magnitude class %g)" % (dd, spec["mag"]))
        # NAC
        if ph.nac_params is not None and s.get("born_effective_charge", True) and s.get("dielectric_constant", True):
            if ph2.nac_params is None:
                errs.append("NAC parameters missing after reload")
            else:
                if not close(ph2.nac_params["born"], ph.nac_params["born"], 0.5e-15)[0] or \
                        not close(ph2.nac_params["dielectric"], ph.nac_params["dielectric"], 0.5e-15)[0]:
                    errs.append("Born charges / dielectric tensor differ beyond the printed precision")
                if abs(ph2.nac_params["factor"] - ph.nac_params["factor"]) > 1e-12 * abs(ph.nac_params["factor"]):
                    errs.append("NAC factor %r reloaded as %r" % (ph.nac_params["factor"], ph2.nac_params["factor"]))
                if ph2.nac_params.get("method", "gonze") != ph.nac_params.get("method", "gonze"):
                    errs.append("NAC method %r reloaded as %r" % (ph.nac_params.get("method"), ph2.nac_params.get("method")))
        # force constants kept in their own hdf5 file (as 'phonopy --writefc --hdf5' leaves them, with the calculator's unit recorded) and
        # named on loading: the values are those of the calculator recorded in the yaml file, not rescaled
        if not errs and ph.force_constants is not None and spec.get("fc_file"):
            from phonopy.file_IO import write_force_constants_to_hdf5
            from phonopy.interface.calculator import get_default_physical_units

            unit = get_default_physical_units(spec["calc"])["force_constants_unit"]
            comp_in = ph.force_constants.shape[0] != ph.force_constants.shape[1]
            write_force_constants_to_hdf5(ph.force_constants, filename="fc_own.hdf5", p2s_map=ph.primitive.p2s_map if comp_in else None, physical_unit=unit)
            # a yaml file WITHOUT force constants, so that the named file is their only source (when both carry them the code takes the
            # yaml's, whatever the docstring's priority list says - observed, outside the listed properties, not asserted here)
            fn_nofc = ph.save("p_nofc.yaml", settings={"force_constants": False})
            os.chdir("empty")
            try:
                ph3 = phonopy.load(os.path.join("..", fn_nofc), force_constants_filename=os.path.join("..", "fc_own.hdf5"), produce_fc=False, symmetrize_fc=False,
                                   is_compact_fc=comp_in, log_level=0)
            except Exception as e:
                return Out(ok=False, msg="load(yaml, force_constants_filename=<hdf5 with unit %r>) raised %r (calculator %s)" % (unit, e, spec["calc"]))
            finally:
                os.chdir("..")
            got3 = ph3.force_constants
            if got3 is None or got3.shape != ph.force_constants.shape or \
                    np.abs(got3 - ph.force_constants).max() > 1e-12 * max(np.abs(ph.force_constants).max(), 1e-300):
                errs.append("force constants read from their own hdf5 file (unit %r, calculator %s) differ from those written by %.3e: ratio of maxima %.6g"
                            % (unit, spec["calc"], float(np.abs(got3 - ph.force_constants).max()) if got3 is not None and got3.shape == ph.force_constants.shape else -1.0, float(np.abs(got3).max() / max(np.abs(ph.force_constants).max(), 1e-300)) if got3 is not None else float("nan")))
        # phonons (same production step on both sides) when everything needed is there
        if not errs and ph.force_constants is not None and ph2.force_constants is not None and spec["mag"] == 1.0 and \
                (ph.nac_params is None) == (ph2.nac_params is None):
            q = [0.13, 0.27, 0.41]
            f1, f2 = ph.get_frequencies(q), ph2.get_frequencies(q)
            if np.abs(f1 - f2).max() > 1e-5 * max(1.0, np.abs(f1).max()):
                errs.append("frequencies of the reloaded object differ: %.3e (unit factor %r vs %r)" % (np.abs(f1 - f2).max(), ph.unit_conversion_factor, ph2.unit_conversion_factor))
        if errs:
            return Out(ok=False, msg="save/load (dataset %s, fc %s, nac %s, calculator %s, settings %r, compression %r, load compact %s): %s"
                       % (spec["dataset"], spec["fc"], spec["nac"], spec["calc"], settings, spec["compression"], spec["load_compact"], "; ".join(errs)))
    nsec = (spec["dataset"] != "none") + (spec["fc"] != "none") + (spec["nac"] != "none")
    return Out(ok=True, nontrivial=nsec >= 2, classes=["smat:" + ("diag" if spec.get("smat") is None or not np.any(np.array(spec["smat"]) - np.diag(np.diag(spec["smat"]))) else
                                                                 ("nonsym" if np.any(np.array(spec["smat"]) != np.array(spec["smat"]).T) else "sym_nondiag")),
                                                       "masses_set_later" if spec.get("set_masses") else "masses_as_built", "stray_BORN_in_cwd" if stray else "clean_cwd", "fc_also_from_own_hdf5" if (spec.get("fc_file") and ph.force_constants is not None) else "fc_from_yaml_only", "ds:" + spec["dataset"], "fc:" + spec["fc"], "nac:" + spec["nac"], "calc:%s" % spec["calc"],
                                                       "mag:%g" % spec["mag"], "xz" if spec["compression"] else "plain", "labels" if spec["labels"] else "plain_symbols"])


# ----------------------------------------------------------------------- plain files

@st.composite
def file_specs(draw, tier):
    return {"key": draw(keys), "natom": draw(st.integers(1, 6)), "ndisp": draw(st.integers(1, 4)),
            "kind": draw(st.sampled_from(["FORCE_SETS1", "FORCE_SETS2", "FORCE_CONSTANTS", "FORCE_CONSTANTS_compact", "hdf5", "hdf5_compact", "convert"])),
            "logmag": draw(st.sampled_from([-12, -6, -3, 0, 0, 2, 4, 5, 6, 7, 8])), "sign": draw(st.sampled_from(["mixed", "mixed", "negative"]))}


def run_files(spec):
    from phonopy.file_IO import (parse_FORCE_CONSTANTS, parse_FORCE_SETS, read_force_constants_hdf5, write_FORCE_CONSTANTS,
                                 write_FORCE_SETS, write_force_constants_to_hdf5)
    from phonopy.structure.dataset import get_displacements_and_forces

    rng = rng_from(spec["key"])
    n, nd = spec["natom"], spec["ndisp"]
    mag = 10.0 ** spec["logmag"]

    def vals(shape):
        v = rng.uniform(0.1, 1.0, size=shape) * mag
        if spec["sign"] == "negative":
            return -v
        return v * rng.choice([-1, 1], size=shape)

    kind = spec["kind"]
    with TmpCwd():
        if kind in ("FORCE_SETS1", "convert"):
            ds = {"natom": n, "first_atoms": [{"number": int(rng.integers(0, n)), "displacement": rng.normal(size=3) * 0.01,
                                              "forces": vals((n, 3))} for _ in range(nd)]}
            if kind == "convert":
                d, f = get_displacements_and_forces(ds)
                for k, fa in enumerate(ds["first_atoms"]):
                    u = np.zeros((n, 3))
                    u[fa["number"]] = fa["displacement"]
                    if not (np.array_equal(d[k], u) and np.array_equal(f[k], fa["forces"])):
                        return Out(ok=False, msg="type-1 -> type-2 conversion is lossy")
                return Out(ok=True, nontrivial=True, classes=[kind])
            write_FORCE_SETS(ds, filename="FS")
            try:
                back = parse_FORCE_SETS(natom=n, filename="FS")
            except Exception as e:
                return Out(ok=False, msg="type-1 FORCE_SETS written by phonopy does not parse back: %r (magnitude 1e%d, %s)" % (e, spec["logmag"], spec["sign"]))
            if back is None or len(back["first_atoms"]) != nd:
                return Out(ok=False, msg="type-1 FORCE_SETS parses back to %r" % (None if back is None else len(back["first_atoms"])))
            for a, b in zip(back["first_atoms"], ds["first_atoms"]):
                if a["number"] != b["number"] or not close(a["displacement"], b["displacement"], 0.5e-16)[0] or not close(a["forces"], b["forces"], 0.5e-10)[0]:
                    return Out(ok=False, msg="type-1 FORCE_SETS round trip changes data beyond the printed precision (magnitude 1e%d)" % spec["logmag"])
        elif kind == "FORCE_SETS2":
            ds = {"displacements": rng.normal(size=(nd, n, 3)) * 0.01, "forces": vals((nd, n, 3))}
            write_FORCE_SETS(ds, filename="FS")
            try:
                back = parse_FORCE_SETS(natom=n, filename="FS")
            except Exception as e:
                return Out(ok=False, msg="type-2 FORCE_SETS written by phonopy does not parse back: %r (magnitude 1e%d, %s)" % (e, spec["logmag"], spec["sign"]))
            if back is None or "forces" not in back:
                return Out(ok=False, msg="type-2 FORCE_SETS written by phonopy parses back to %r (magnitude 1e%d, %s)" % (back, spec["logmag"], spec["sign"]))
            if not close(back["displacements"], ds["displacements"], 0.5e-8)[0] or not close(back["forces"], ds["forces"], 0.5e-8)[0]:
                return Out(ok=False, msg="type-2 FORCE_SETS round trip changes data beyond the %%15.8f half-ulp (magnitude 1e%d)" % spec["logmag"])
        else:
            compact = kind.endswith("compact")
            if compact:
                # realistic index maps: up to 8 primitive atoms, up to 12 lattice points, images stored block-wise ([0, 12, 24, ...])
                npr, nlat = int(rng.integers(1, 9)), int(rng.integers(1, 13))
                n = npr * nlat
                p2s = np.arange(npr, dtype="intc") * nlat
            else:
                npr, p2s = n, None
            fc = vals((npr, n, 3, 3))
            try:
                if kind.startswith("hdf5"):
                    write_force_constants_to_hdf5(fc, filename="fc.hdf5", p2s_map=p2s)
                    back = read_force_constants_hdf5(filename="fc.hdf5", p2s_map=p2s)
                    half = 0.0
                else:
                    write_FORCE_CONSTANTS(fc, filename="FC", p2s_map=p2s)
                    back = parse_FORCE_CONSTANTS(filename="FC", p2s_map=p2s)
                    half = 0.5e-15
            except Exception as e:
                return Out(ok=False, msg="%s written by phonopy does not parse back: %r (magnitude 1e%d, %s)" % (kind, e, spec["logmag"], spec["sign"]))
            ok, dd = close(back, fc, half) if half else (np.array_equal(back, fc), 0.0)
            if not ok:
                return Out(ok=False, msg="%s round trip changes the force constants (excess %.2e, magnitude 1e%d)" % (kind, dd, spec["logmag"]))
    return Out(ok=True, nontrivial=True, classes=[kind, "mag:1e%d" % spec["logmag"], spec["sign"]] + (["nprim>=5"] if kind.endswith("compact") and npr >= 5 else []))


# ----------------------------------------------------------------------- BORN

@st.composite
def born_specs(draw, tier):
    return {"crystal": draw(crystal_specs(max_unit=10, kinds=("hall", "hall", "proto", "centred"), masses=False)), "key": draw(keys),
            "pmat": draw(st.sampled_from(["none", "auto"])), "n": draw(st.sampled_from([[1, 1, 1], [2, 1, 1], [1, 1, 2]]))}


def run_born(spec):
    import contextlib
    import io

    from phonopy import Phonopy
    from phonopy.file_IO import get_BORN_lines, parse_BORN_from_strings

    c = build_crystal(spec["crystal"])
    if c is None:
        return Out(nontrivial=False, classes=["discarded"])
    cell = c["cell"]
    try:
        ph = Phonopy(cell, supercell_matrix=np.diag(spec["n"]), primitive_matrix=None if spec["pmat"] == "none" else "auto", log_level=0)
    except Exception as e:
        return Out(nontrivial=False, rejected=True, classes=["ctor_rejected:" + type(e).__name__])
    rng = rng_from(spec["key"])
    try:
        Zu, eps = sym_nac(cell, rng)
    except ValueError:
        return Out(nontrivial=False, classes=["skipped"])
    buf = io.StringIO()
    with contextlib.redirect_stdout(buf):
        lines = get_BORN_lines(cell, Zu, eps, primitive_matrix=ph.primitive_matrix, supercell_matrix=ph.supercell_matrix)
        nac = parse_BORN_from_strings("\n".join(lines), ph.primitive)
    if nac is None:
        return Out(ok=False, msg="BORN text written by phonopy parses back to None: %s" % buf.getvalue()[:200])
    sc, prim = ph.supercell, ph.primitive
    idx = [sc.u2u_map[sc.s2u_map[i]] for i in prim.p2s_map]
    e1 = np.abs(nac["born"] - Zu[idx]).max()
    e2 = np.abs(nac["dielectric"] - eps).max()
    if max(e1, e2) > 2e-8:
        return Out(ok=False, info={"err": max(e1, e2)}, msg="BORN round trip: Born charges differ by %.3e, dielectric tensor by %.3e (%%13.8f half-ulp is 5e-9) "
                   "for %d atoms, %d independent" % (e1, e2, len(prim), len(lines) - 2))
    nops = len(np.unique(own_ops(prim)[0], axis=0))
    return Out(ok=True, nontrivial=len(lines) - 2 < len(prim), classes=["nops:%d" % min(nops, 48), "indep:%d" % (len(lines) - 2)], info={"err": max(e1, e2)})


SUBCHECKS = [
    Sub("save_load", run=run_save_load, strategy=sl_specs, examples={"quick": 400, "thorough": 12000}, shards={"quick": 8, "thorough": 16},
        builds=["omp"], budget={"quick": 120, "thorough": 2400},
        what="load(save(ph)) reproduces cells, matrices, dataset, force constants, NAC, calculator within the printed precision; phonons equal"),
    Sub("files", run=run_files, strategy=file_specs, examples={"quick": 3000, "thorough": 100000}, shards={"quick": 4, "thorough": 16},
        builds=["omp"], what="FORCE_SETS (both types), FORCE_CONSTANTS, force_constants.hdf5 parse back to what was written; type-1 -> type-2 conversion lossless"),
    Sub("born", run=run_born, strategy=born_specs, examples={"quick": 400, "thorough": 12000}, shards={"quick": 4, "thorough": 16},
        builds=["omp"], budget={"quick": 120, "thorough": 2400}, what="get_BORN_lines -> parse_BORN returns the symmetry-expanded input tensors"),
]
