"""C01 Finite-displacement solver recovers exactly harmonic force constants."""
import numpy as np
from hypothesis import strategies as st

from gen.crystals import build_crystal, crystal_with_supercell, keys
from oracles.models import dense_fc, own_magnetic_ops, own_ops
from vlib.case import Out, Sub, relerr, rng_from, short_tb

PROPERTY = "C01"
RULE = ("Hypothesis draws (crystal spec: Hall number 1..530 with symmetrised random metric and 1-3 orbits | prototype | "
        "centred P1 motif | P1; atom order permuted, rigid rotation, custom masses), an integer supercell matrix "
        "(diagonal, HNF x unimodular, or small-entry, det>=1, natom<=48 quick/96 thorough), primitive matrix choice, "
        "is_symmetry, is_plusminus, is_diagonal, is_trigonal, distance, layout; the harmonic model is a dense random array projected "
        "by OUR OWN space-group/permutation/sum-rule projectors. Non-trivial: supercell group has >=2 non-translational "
        "operations, or S non-diagonal, or species interleaved, or compact layout, or is_symmetry=False. Distinct by "
        "hash of the full case spec.")
ASSUMPTIONS = [
    "C extension is built from /repo/c with a stand-in nanobind header (same C sources, different glue library)",
    "spglib's raw symmetry search on the supercell is trusted to list the operations used to build the reference model",
    "forces are exact linear response F=-Phi u of the reference model for every displaced supercell phonopy generated",
]


@st.composite
def fit_specs(draw, tier):
    max_atoms = 48 if tier == "quick" else 96
    if draw(st.sampled_from([0, 0, 1])):
        # trigonal / hexagonal crystals in skewed supercells m x (unimodular matrix): site-symmetry rotations written in such a basis
        # are far from orthogonal integer matrices - the hardest input of the displacement-direction search
        cs = {"kind": "hall", "key": draw(keys), "hall": draw(st.integers(430, 488)), "norbits": draw(st.integers(1, 2)), "max_unit": 6,
              "perm": draw(st.booleans()), "rot": draw(st.booleans()), "masses": draw(st.booleans())}
        U = np.eye(3, dtype=int)
        for _ in range(draw(st.integers(1, 4))):
            i, j = draw(st.sampled_from([(0, 1), (0, 2), (1, 0), (1, 2), (2, 0), (2, 1)]))
            E = np.eye(3, dtype=int)
            E[i, j] = draw(st.sampled_from([-1, 1]))
            U = U @ E
        c0 = build_crystal(cs)
        m = 2 if (c0 is not None and len(c0["cell"]) * 8 <= max_atoms and draw(st.booleans())) else 1
        base = {"crystal": cs, "smat": (m * U).tolist()}
    else:
        base = draw(crystal_with_supercell(max_atoms=max_atoms, max_unit=12, max_det=8))
    base.update(
        key=draw(keys),
        pmat=draw(st.sampled_from(["none", "auto", "P", "centring", "explicit"])),
        is_symmetry=draw(st.sampled_from([True, True, True, False])),
        is_plusminus=draw(st.sampled_from(["auto", True, False])),
        is_diagonal=draw(st.booleans()),
        is_trigonal=draw(st.sampled_from([False, False, True])),
        distance=draw(st.sampled_from([0.001, 0.01, 0.03, 0.2, 0.5])),
        compact=draw(st.booleans()),
        dense_svecs=draw(st.booleans()),
        # the displaced supercells phonopy hands out (rather than the dataset) drive the 'calculator'; optionally after an earlier
        # generate_displacements call with other settings on the same object
        forces_from=draw(st.sampled_from(["dataset", "supercells", "supercells"])),
        regenerate=draw(st.booleans()),
        # a user may hand the type-1 dataset back with its entries in any order (the entries carry their atom index)
        dataset_order=draw(st.sampled_from(["as_generated", "as_generated", "reassigned", "reversed", "shuffled"])),
        # magnetic crystals: the force constants respect the magnetic space group only
        magmom=draw(st.sampled_from(["none", "none", "none", "nc_uniform", "col_uniform", "col_afm"])),
        magdir=draw(st.sampled_from(["z", "x", "a", "a+b", "generic"])),
        shared_dataset=draw(st.sampled_from([False, False, True])),
    )
    return base


def run_fit(spec):
    from phonopy import Phonopy

    c = build_crystal(spec["crystal"])
    if c is None:
        return Out(nontrivial=False, classes=["discarded_overlap"])
    cell = c["cell"]
    S = np.array(spec["smat"])
    pm = spec["pmat"]
    mag = spec.get("magmom", "none")
    unit_moments = None
    if mag != "none":
        L0 = np.array(cell.cell, dtype=float)
        if mag == "nc_uniform":
            v = {"z": np.array([0., 0., 1.]), "x": np.array([1., 0., 0.]), "a": L0[0], "a+b": L0[0] + L0[1],
                 "generic": np.array([0.3, -0.5, 0.8])}[spec.get("magdir", "z")]
            unit_moments = np.tile(1.5 * v / np.linalg.norm(v), (len(cell), 1))
        elif mag == "col_uniform":
            unit_moments = np.full(len(cell), 2.0)
        else:
            mrng = rng_from(spec["key"] + 17)
            unit_moments = mrng.choice([-1.0, 1.0], size=len(cell))
        cell = cell.copy()
        cell.magnetic_moments = unit_moments
        if pm == "auto" or mag == "col_afm":
            pm = "none"  # 'auto' is documented not to work with moments; a centring need not respect an antiferromagnetic pattern
    if pm == "none":
        pmat = None
    elif pm == "centring":
        pmat = c["centring"] if c["centring"] else ("auto" if mag == "none" else None)
    elif pm == "explicit":
        from phonopy.structure.cells import get_primitive_matrix_by_centring

        pmat = get_primitive_matrix_by_centring(c["centring"] or "P")
    else:
        pmat = pm
    try:
        ph = Phonopy(cell, supercell_matrix=S, primitive_matrix=pmat, is_symmetry=spec["is_symmetry"],
                     store_dense_svecs=spec["dense_svecs"], log_level=0)
    except Exception as e:  # constructor may reject (documented RuntimeError on inconsistent cells)
        return Out(nontrivial=False, rejected=True, classes=["ctor_rejected:" + type(e).__name__])
    scell = ph.supercell
    n = len(scell)
    rng = rng_from(spec["key"])
    if unit_moments is None:
        fc, nops = dense_fc(scell, rng)
    else:
        # moments of the supercell atoms from their positions (not from the object): unit-cell coordinates modulo 1
        xu = scell.scaled_positions @ S.T
        d = xu[:, None, :] - c["cell"].scaled_positions[None, :, :]
        d -= np.rint(d)
        s2u = np.argmin(np.linalg.norm(d @ np.array(c["cell"].cell), axis=2), axis=1)
        fc, nops = dense_fc(scell, rng, ops=own_magnetic_ops(scell, unit_moments[s2u]))
        mag_reduced = nops < len(own_ops(scell)[0])
    if spec.get("regenerate"):
        ph.generate_displacements(distance=0.07, is_plusminus=True, is_diagonal=not spec["is_diagonal"])
        _ = ph.supercells_with_displacements  # a user looks at the first set, then decides on other settings
    ph.generate_displacements(distance=spec["distance"], is_plusminus=spec["is_plusminus"],
                              is_diagonal=spec["is_diagonal"], is_trigonal=spec.get("is_trigonal", False))
    forces = []
    if spec.get("forces_from", "dataset") == "supercells":
        # what a calculator sees: the displaced structures written by phonopy
        cells = ph.supercells_with_displacements
        if len(cells) != len(ph.dataset["first_atoms"]):
            return Out(ok=False, msg="%d displaced supercells for %d displacements in the dataset" % (len(cells), len(ph.dataset["first_atoms"])))
        Linv = np.linalg.inv(scell.cell)
        for cdisp in cells:
            du = (cdisp.scaled_positions - scell.scaled_positions)
            du -= np.rint(du)
            forces.append(-np.einsum("ijab,jb->ia", fc, du @ scell.cell))
    else:
        for d in ph.dataset["first_atoms"]:
            u = np.zeros((n, 3))
            u[d["number"]] = d["displacement"]
            forces.append(-np.einsum("ijab,jb->ia", fc, u))
    order = spec.get("dataset_order", "as_generated")
    if spec.get("shared_dataset") and order == "as_generated":
        # the dataset is handed to a second object which receives the forces of ANOTHER crystal model: the two objects keep their own data
        try:
            ph_b = Phonopy(cell, supercell_matrix=S, primitive_matrix=pmat, is_symmetry=spec["is_symmetry"], log_level=0)
        except Exception:
            ph_b = None
        if ph_b is not None:
            ph_b.dataset = ph.dataset
            ph.forces = forces
            ph_b.forces = [-1.7 * np.asarray(f) + 0.3 for f in forces]
        else:
            ph.forces = forces
    elif order == "as_generated":
        ph.forces = forces
    else:
        entries = [{"number": int(d["number"]), "displacement": np.array(d["displacement"], dtype=float), "forces": np.array(f)}
                   for d, f in zip(ph.dataset["first_atoms"], forces)]
        if order == "reversed":
            entries = entries[::-1]
        elif order == "shuffled":
            entries = [entries[i] for i in rng_from(spec["key"] + 5).permutation(len(entries))]
        ph.dataset = {"natom": n, "first_atoms": entries}
    try:
        ph.produce_force_constants(calculate_full_force_constants=not spec["compact"])
    except Exception as e:
        return Out(ok=False, msg="produce_force_constants raised on phonopy's own displacement set: %r\n%s" % (e, short_tb(e)))
    got = ph.force_constants
    p2s = ph.primitive.p2s_map
    if spec["compact"]:
        if got.shape[0] != len(p2s):
            return Out(ok=False, msg="compact layout requested, got shape %s" % (got.shape,))
        ref = fc[p2s]
    else:
        if got.shape[0] != n:
            return Out(ok=False, msg="full layout requested, got shape %s" % (got.shape,))
        ref = fc
    err = relerr(got, ref)
    nondiag = bool(np.any(S - np.diag(np.diag(S))))
    syms = list(scell.symbols)
    interleaved = any(syms[i] != syms[i + 1] for i in range(len(syms) - 1)) and len(set(syms)) > 1 and \
        sorted(syms) != syms and syms != sorted(syms, reverse=True)
    ntrans = int(round(np.linalg.det(S))) * (n // (int(round(np.linalg.det(S))) * len(ph.primitive)) if len(ph.primitive) else 1)
    nontriv = (nops // max(1, n // len(ph.primitive)) >= 2) or nondiag or interleaved or spec["compact"] or not spec["is_symmetry"]
    classes = [spec["crystal"]["kind"], "compact" if spec["compact"] else "full", "pm:%s" % spec["is_plusminus"],
               "nondiag" if nondiag else "diag", "trigonal:%s/diag:%s" % (spec.get("is_trigonal", False), spec["is_diagonal"]), "sym" if spec["is_symmetry"] else "nosym", "pmat:" + pm, "forces_from:" + spec.get("forces_from", "dataset"),
               "regenerated" if spec.get("regenerate") else "single_generate", "dataset_order:" + order, "dataset_shared_with_second_object" if (spec.get("shared_dataset") and order == "as_generated") else "single_object",
               "magmom:" + (mag if mag != "nc_uniform" else mag + "/" + spec.get("magdir", "z")),
               "moments_lower_symmetry" if (unit_moments is not None and mag_reduced) else "moments_keep_symmetry_or_none",
               "ndisp:%d" % min(len(forces), 12)]
    tol = 1e-8
    if spec.get("forces_from") == "supercells":
        # displacements re-derived from printed-precision-free but finite-precision positions: |r| eps / distance, amplified by the fit
        tol = max(tol, 1e-10 * float(np.abs(scell.cell).max()) / float(spec["distance"]))
    if err > tol:
        return Out(ok=False, classes=classes, info={"err": err},
                   msg="force constants differ from the harmonic model: rel err %.3e (natom %d, %d displacements, nops %d)"
                   % (err, n, len(forces), nops))
    return Out(ok=True, nontrivial=nontriv, classes=classes, info={"err": err, "natom": n})


SUBCHECKS = [
    Sub("fit", run=run_fit, strategy=fit_specs,
        examples={"quick": 1200, "thorough": 40000}, shards={"quick": 12, "thorough": 16},
        budget={"quick": 90, "thorough": 1500},
        what="generate_displacements -> exact harmonic forces -> produce_force_constants == model (full/compact)"),
]
