"""C06 Force constants <-> dynamical matrices at commensurate points is lossless."""
import itertools

import numpy as np
from hypothesis import strategies as st

from gen.crystals import build_crystal, crystal_with_supercell, det3, keys
from oracles.models import dense_fc, sym_nac
from vlib.case import Out, Sub, relerr, rng_from

PROPERTY = "C06"
TECHNIQUE = ("bounded-exhaustive enumeration (commensurate points of all small integer matrices, exact integer arithmetic) + "
             "property-based round trips fc -> D(q) -> fc and supercell re-expression (Hypothesis)")
RULE = ("'commensurate_enum': ALL integer matrices with entries in [-1,1] (quick) / [-2,2] (thorough) and det>0: count = det, "
        "pairwise distinct mod 1, S^T q integral (integer arithmetic for the integer version), float and integer versions "
        "the same set. 'commensurate_random': entries up to 6, det <= 60. 'roundtrip': crystals/supercells as in C01 with "
        "periodic, index-permutation-symmetric models; D at commensurate q from DynamicalMatrix -> DynmatToForceConstants "
        "(lang C|Py, full|compact, OpenMP on/off, via matrices or eigen-solutions). 'ph2ph': S2 = S1 M and unrelated S2, "
        "with/without NAC in the interpolation. Non-trivial: det>=2 and (non-diagonal S or some shortest-vector "
        "multiplicity >= 2). Distinct by spec hash / matrix.")
ASSUMPTIONS = ["round trip is asserted on translationally periodic, index-permutation-symmetric arrays (the Hermitianisation "
               "inside the dynamical matrix makes the map non-injective otherwise)"]


def check_commensurate(S):
    from phonopy.harmonic.dynmat_to_fc import get_commensurate_points, get_commensurate_points_in_integers

    S = np.array(S, dtype=int)
    N = det3(S)
    cp = get_commensurate_points(S)
    cpi = np.array(get_commensurate_points_in_integers(S), dtype=np.int64)
    if len(cp) != N:
        return "get_commensurate_points: %d points for det %d" % (len(cp), N)
    if len(cpi) != N:
        return "get_commensurate_points_in_integers: %d points for det %d" % (len(cpi), N)
    x = S.T.astype(float) @ cp.T
    if np.abs(x - np.rint(x)).max() > 1e-9:
        return "S^T q not integral (max dev %.3e)" % np.abs(x - np.rint(x)).max()
    xi = S.T.astype(np.int64) @ cpi.T
    if np.any(xi % N):
        return "integer version: S^T p not divisible by det"
    # exact key: N*q rounded to integers mod N
    kf = {tuple(int(v) % N for v in np.rint(q * N)) for q in cp}
    if np.abs(cp * N - np.rint(cp * N)).max() > 1e-7:
        return "N q not integral"
    ki = {tuple(int(v) % N for v in p) for p in cpi}
    if len(kf) != N:
        return "float commensurate points not distinct mod 1"
    if len(ki) != N:
        return "integer commensurate points not distinct mod N"
    if kf != ki:
        return "float and integer versions describe different sets"
    return None


def enum_specs(tier):
    rng = (-1, 0, 1) if tier == "quick" else (-2, -1, 0, 1, 2)
    mats = [m for m in itertools.product(rng, repeat=9) if 0 < det3(np.array(m).reshape(3, 3)) <= 24]
    return [{"mats": [list(m) for m in mats[i:i + 64]]} for i in range(0, len(mats), 64)]


def run_enum(spec):
    keys_ = []
    for m in spec["mats"]:
        S = np.array(m).reshape(3, 3)
        err = check_commensurate(S)
        if err:
            return Out(ok=False, msg="S=%s: %s" % (S.tolist(), err))
        if det3(S) >= 2 and np.any(S - np.diag(np.diag(S))):
            keys_.append("S" + "".join(map(str, m)))
    return Out(ok=True, nontrivial=bool(keys_), key=keys_, info={"n_cases": len(spec["mats"])})


@st.composite
def comm_random_specs(draw, tier):
    return {"S": draw(st.lists(st.integers(-6, 6), min_size=9, max_size=9).filter(
        lambda v: 1 <= det3(np.array(v).reshape(3, 3)) <= 60))}


def run_comm_random(spec):
    S = np.array(spec["S"]).reshape(3, 3)
    err = check_commensurate(S)
    if err:
        return Out(ok=False, msg="S=%s: %s" % (S.tolist(), err))
    return Out(ok=True, nontrivial=det3(S) >= 2 and bool(np.any(S - np.diag(np.diag(S)))), classes=["det:%d" % min(det3(S) // 10 * 10, 60)])


# ----------------------------------------------------------------------- round trip

def _pmat(pm, c):
    if pm == "none":
        return None
    if pm == "centring":
        return c["centring"] if c["centring"] else "auto"
    return pm


@st.composite
def rt_specs(draw, tier):
    b = draw(crystal_with_supercell(max_atoms=40 if tier == "quick" else 64, max_unit=6, max_det=12))
    b.update(key=draw(keys), pmat=draw(st.sampled_from(["none", "auto", "centring"])), dense_svecs=draw(st.booleans()),
             full=draw(st.booleans()), lang=draw(st.sampled_from(["C", "C", "Py"])), openmp=draw(st.booleans()),
             via=draw(st.sampled_from(["dynmat", "dynmat", "eigen"])), fc_in=draw(st.sampled_from(["full", "compact"])),
             # the transformer object is used once, or first for another model (possibly through the other language path)
             before=draw(st.sampled_from(["none", "none", "C", "Py"])),
             cplayout=draw(st.sampled_from(["default", "default", "list", "fortran", "strided", "transposed"])))
    return b


def run_roundtrip(spec):
    from phonopy import Phonopy
    from phonopy.harmonic.dynmat_to_fc import DynmatToForceConstants

    c = build_crystal(spec["crystal"])
    if c is None:
        return Out(nontrivial=False, classes=["discarded_overlap"])
    S = np.array(spec["smat"])
    try:
        ph = Phonopy(c["cell"], supercell_matrix=S, primitive_matrix=_pmat(spec["pmat"], c),
                     store_dense_svecs=spec["dense_svecs"], log_level=0)
    except Exception as e:
        return Out(nontrivial=False, rejected=True, classes=["ctor_rejected:" + type(e).__name__])
    prim = ph.primitive
    rng = rng_from(spec["key"])
    fc, _ = dense_fc(ph.supercell, rng, asr=bool(spec["key"] % 2), space_group=True if spec["key"] % 3 else "translations")
    ph.force_constants = np.array(fc[prim.p2s_map], order="C") if spec["fc_in"] == "compact" else fc.copy()
    d2f = DynmatToForceConstants(prim, ph.supercell, is_full_fc=spec["full"], use_openmp=spec["openmp"])
    cq = d2f.commensurate_points
    if spec.get("cplayout", "default") != "default":
        # the same points handed back through the public setter in another memory layout
        from vlib.case import present

        d2f.commensurate_points = present(np.array(cq, dtype="double"), spec["cplayout"])
        if np.abs(np.asarray(d2f.commensurate_points) - cq).max() > 0:
            return Out(ok=False, msg="commensurate_points setter changed the values (%s)" % spec["cplayout"])
    N = len(ph.supercell) // len(prim)
    if len(cq) != N:
        return Out(ok=False, msg="number of commensurate points %d != N %d" % (len(cq), N))
    if spec.get("before", "none") != "none":
        other, _ = dense_fc(ph.supercell, rng_from(spec["key"], 5), asr=True)
        ph.force_constants = other.copy()
        Do = []
        for q in cq:
            ph.dynamical_matrix.run(q)
            Do.append(ph.dynamical_matrix.dynamical_matrix.copy())
        d2f.dynamical_matrices = np.array(Do)
        d2f.run(lang=spec["before"])
        eo = relerr(d2f.force_constants, other if spec["full"] else other[prim.p2s_map])
        if eo > 1e-9:
            return Out(ok=False, info={"err": eo}, msg="fc -> D(commensurate q) -> fc does not return the input (first use of the object, lang %s): "
                       "rel err %.3e" % (spec["before"], eo))
        ph.force_constants = np.array(fc[prim.p2s_map], order="C") if spec["fc_in"] == "compact" else fc.copy()
    dm = ph.dynamical_matrix
    Ds = []
    for q in cq:
        dm.run(q)
        Ds.append(dm.dynamical_matrix.copy())
    Ds = np.array(Ds)
    if spec["via"] == "eigen":
        ev, evec = [], []
        for D in Ds:
            w, v = np.linalg.eigh(D)
            ev.append(w)
            evec.append(v)
        d2f.create_dynamical_matrices(np.array(ev), np.array(evec))
    else:
        d2f.dynamical_matrices = Ds
    d2f.run(lang=spec["lang"])
    got = d2f.force_constants
    ref = fc if spec["full"] else fc[prim.p2s_map]
    if got.shape != ref.shape:
        return Out(ok=False, msg="force-constant shape %s, expected %s" % (got.shape, ref.shape))
    e = relerr(got, ref)
    tol = 1e-9 if spec["via"] == "dynmat" else 1e-8
    svecs, multi = prim.get_smallest_vectors()
    mm = int(multi[..., 0].max()) if multi.ndim == 3 else int(multi.max())
    nondiag = bool(np.any(S - np.diag(np.diag(S))))
    classes = ["full" if spec["full"] else "compact", "lang:" + spec["lang"], "omp" if spec["openmp"] else "noomp", spec["via"],
               "in:" + spec["fc_in"], "mult:%d" % min(mm, 8), "object_used_before:" + spec.get("before", "none"), "cpoints:" + spec.get("cplayout", "default")]
    if e > tol:
        return Out(ok=False, classes=classes, info={"err": e},
                   msg="fc -> D(commensurate q) -> fc does not return the input: rel err %.3e (%s)" % (e, ",".join(classes)))
    return Out(ok=True, nontrivial=N >= 2 and (nondiag or mm >= 2), classes=classes, info={"err": e})


@st.composite
def ph2ph_specs(draw, tier):
    b = draw(crystal_with_supercell(max_atoms=24, max_unit=4, max_det=6, kinds=("hall", "proto", "centred", "p1")))
    b.update(key=draw(keys), pmat=draw(st.sampled_from(["none", "auto", "centring"])),
             M=draw(st.sampled_from([[1, 1, 2], [2, 1, 1], [1, 2, 1], [2, 2, 1], [1, 1, 3], [2, 1, 2], "unrelated"])),
             S2=draw(st.lists(st.integers(-2, 2), min_size=9, max_size=9).filter(lambda v: 1 <= det3(np.array(v).reshape(3, 3)) <= 6)),
             nac=draw(st.sampled_from(["none", "none", "wang_interp", "wang_nointerp"])), compact=draw(st.booleans()),
             snf=draw(st.booleans()), dense_svecs=draw(st.booleans()), set_masses=draw(st.booleans()),
             fsf=draw(st.sampled_from([None, None, None, 1.1, 0.93])))  # deprecated-but-supported frequency_scale_factor
    return b


def run_ph2ph(spec):
    from phonopy import Phonopy
    from phonopy.harmonic.dynmat_to_fc import get_commensurate_points

    c = build_crystal(spec["crystal"])
    if c is None:
        return Out(nontrivial=False, classes=["discarded_overlap"])
    S1 = np.array(spec["smat"])
    if spec["M"] == "unrelated":
        S2 = np.array(spec["S2"]).reshape(3, 3)
    else:
        S2 = S1 @ np.diag(spec["M"])
    if len(c["cell"]) * det3(S2) > 96:
        return Out(nontrivial=False, classes=["too_large"])
    try:
        okw = dict(use_SNF_supercell=bool(spec.get("snf")), store_dense_svecs=bool(spec.get("dense_svecs", True)))
        if spec.get("fsf") is not None:
            okw["frequency_scale_factor"] = spec["fsf"]
        ph = Phonopy(c["cell"], supercell_matrix=S1, primitive_matrix=_pmat(spec["pmat"], c), log_level=0, **okw)
    except Exception as e:
        return Out(nontrivial=False, rejected=True, classes=["ctor_rejected:" + type(e).__name__])
    rng = rng_from(spec["key"])
    prim = ph.primitive
    fc, _ = dense_fc(ph.supercell, rng)
    ph.force_constants = np.array(fc[prim.p2s_map], order="C") if spec["compact"] else fc
    if spec.get("set_masses"):
        ph.masses = 1.0 + 40 * rng_from(spec["key"], 21).random(len(prim))  # e.g. an isotope substitution after construction
        prim = ph.primitive
    with_nac = False
    if spec["nac"] != "none" and len(set(prim.symbols)) >= 1:
        Z, eps = sym_nac(prim, rng)
        ph.nac_params = {"born": Z, "dielectric": eps, "factor": 14.4, "method": "wang"}
        with_nac = spec["nac"] == "wang_interp"
    try:
        ph2 = ph.ph2ph(S2, with_nac=with_nac)
    except Exception as e:
        if "primitive" in str(e).lower() or isinstance(e, AssertionError):
            return Out(nontrivial=False, rejected=True, classes=["ph2ph_rejected:" + type(e).__name__])
        raise
    # q commensurate with S1 (relative to the primitive cell)
    T1 = np.rint(ph.supercell.cell @ np.linalg.inv(prim.cell)).astype(int)
    T2 = np.rint(ph2.supercell.cell @ np.linalg.inv(ph2.primitive.cell)).astype(int)
    cq = get_commensurate_points(T1.T)
    worst = 0.0
    n_assert = 0
    ref_obj = ph
    if spec["nac"] != "none" and not with_nac:
        # interpolation ignored NAC: compare with the NAC-free original
        ref_obj = Phonopy(c["cell"], supercell_matrix=S1, primitive_matrix=_pmat(spec["pmat"], c), log_level=0, **okw)
        ref_obj.force_constants = ph.force_constants
        if spec.get("set_masses"):
            ref_obj.masses = np.array(ph.masses, copy=True)
    for q in cq:
        x = T2 @ q
        if np.abs(x - np.rint(x)).max() > 1e-9:
            continue  # not commensurate with the target supercell: nothing is promised
        if with_nac and np.abs(q - np.rint(q)).max() < 1e-9:
            continue  # Gamma with NAC is direction dependent
        ref_obj.dynamical_matrix.run(q)
        a = ref_obj.dynamical_matrix.dynamical_matrix.copy()
        ph2.dynamical_matrix.run(q)
        b = ph2.dynamical_matrix.dynamical_matrix.copy()
        e = relerr(b, a, np.abs(fc).max() / prim.masses.min())
        worst = max(worst, e)
        n_assert += 1
        if e > 1e-8:
            return Out(ok=False, info={"err": e}, msg="ph2ph(%s) changes D at q=%s commensurate with the original supercell %s: rel err %.3e (nac=%s)"
                       % (S2.tolist(), q.tolist(), S1.tolist(), e, spec["nac"]))
    if len(prim) != len(ph.supercell) and \
            ph2.force_constants.shape[0] != (len(ph2.primitive) if spec["compact"] else len(ph2.supercell)):
        return Out(ok=False, msg="ph2ph did not keep the force-constant layout")
    return Out(ok=True, nontrivial=n_assert >= 2 and det3(S2) >= 2,
               classes=["related" if spec["M"] != "unrelated" else "unrelated", "nac:" + spec["nac"], "compact" if spec["compact"] else "full",
                        "snf" if spec.get("snf") else "classic", "dense" if spec.get("dense_svecs", True) else "sparse",
                        "masses_set" if spec.get("set_masses") else "masses_default", "fsf:%s" % spec.get("fsf")],
               info={"err": worst, "asserted_q": n_assert})


SUBCHECKS = [
    Sub("commensurate_enum", run=run_enum, enumerate=enum_specs, shards={"quick": 8, "thorough": 16}, builds=["omp"],
        budget={"quick": 200, "thorough": 3000}, what="every small integer matrix: det S points, distinct, S^T q integral, int == float"),
    Sub("commensurate_random", run=run_comm_random, strategy=comm_random_specs, examples={"quick": 800, "thorough": 20000},
        shards={"quick": 4, "thorough": 16}, builds=["omp"], what="larger entries and determinants"),
    Sub("roundtrip", run=run_roundtrip, strategy=rt_specs, examples={"quick": 800, "thorough": 25000},
        shards={"quick": 8, "thorough": 16}, budget={"quick": 100, "thorough": 1800},
        what="fc -> D(commensurate q) -> fc identity, C/Py, full/compact, OpenMP on/off, via eigen-solutions"),
    Sub("ph2ph", run=run_ph2ph, strategy=ph2ph_specs, examples={"quick": 300, "thorough": 8000},
        shards={"quick": 8, "thorough": 16}, budget={"quick": 100, "thorough": 1800},
        what="re-expression in another supercell preserves D at q commensurate with both"),
]
