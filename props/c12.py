"""C12 Group velocities and Grueneisen parameters are true derivatives of the spectrum."""
import numpy as np
from hypothesis import strategies as st

from gen.crystals import build_crystal, crystal_with_supercell, keys
from oracles.models import dense_fc, own_ops, springs_fc, sym_nac
from vlib.case import Out, Sub, relerr, rng_from

PROPERTY = "C12"
TECHNIQUE = ("property-based testing (Hypothesis): analytic derivative vs Richardson-extrapolated finite differences of the "
             "code's own D(q) and frequencies; closed-form Grueneisen parameter for power-law force constants")
RULE = ("Crystals/supercells as in C01; force constants: springs (stable), dense symmetric, and arbitrary random arrays "
        "(no permutation symmetry); NAC none | wang (| gonze for group velocities); full/compact; q random in [-1.5,1.5]^3 "
        "(inside and outside the first zone); q_length None or 1e-5..1e-3. Grueneisen: volume triples V0(1+a), V0(1-b) with "
        "a != b allowed, exponent g in [0.5,3]. Non-trivial: >= 2 atoms per primitive cell or non-orthogonal lattice, q "
        "generic. Modes closer than 1e-2 THz (or 50 |v| h) to another mode are skipped and counted. Distinct by spec hash.")
ASSUMPTIONS = [
    "group-velocity oracle differentiates phonopy's own reported frequencies (h = 1e-6 1/Angstrom, Richardson), on modes "
    "separated from their neighbours; degenerate modes are out of scope of the statement",
    "Grueneisen mesh symmetric-vs-full equality is asserted for supercells n*I (point group kept)",
]


def _pmat(pm, c):
    if pm == "none":
        return None
    if pm == "centring":
        return c["centring"] if c["centring"] else "auto"
    return pm


@st.composite
def base(draw, tier, max_atoms=32, kinds=("hall", "proto", "centred", "p1")):
    b = draw(crystal_with_supercell(max_atoms=max_atoms, max_unit=6, max_det=8, kinds=kinds))
    b.update(key=draw(keys), pmat=draw(st.sampled_from(["none", "auto", "centring"])), compact=draw(st.booleans()),
             q=draw(st.lists(st.floats(-1.5, 1.5, allow_nan=False, width=64), min_size=3, max_size=3)))
    return b


def _phonopy(spec, **kw):
    from phonopy import Phonopy

    c = build_crystal(spec["crystal"])
    if c is None:
        return None, None, Out(nontrivial=False, classes=["discarded_overlap"])
    try:
        ph = Phonopy(c["cell"], supercell_matrix=np.array(spec["smat"]), primitive_matrix=_pmat(spec["pmat"], c), log_level=0, **kw)
    except Exception as e:
        return None, None, Out(nontrivial=False, rejected=True, classes=["ctor_rejected:" + type(e).__name__])
    return ph, c, None


@st.composite
def ddm_specs(draw, tier):
    b = draw(base(tier, max_atoms=16))
    b["model"] = draw(st.sampled_from(["springs", "dense", "random"]))
    b["nac"] = draw(st.sampled_from(["none", "none", "wang"]))
    return b


def _set_fc(ph, spec, rng):
    n = len(ph.supercell)
    if spec["model"] == "springs":
        fc = springs_fc(ph.supercell)
    elif spec["model"] == "dense":
        fc, _ = dense_fc(ph.supercell, rng)
    else:
        fc = rng.normal(size=(n, n, 3, 3))
    ph.force_constants = np.array(fc[ph.primitive.p2s_map], order="C") if spec["compact"] else fc
    return fc


def run_ddm(spec):
    from phonopy.harmonic.derivative_dynmat import DerivativeOfDynamicalMatrix

    ph, c, out = _phonopy(spec)
    if ph is None:
        return out
    rng = rng_from(spec["key"])
    fc_full = _set_fc(ph, spec, rng)
    if spec["nac"] == "wang":
        try:
            Z, eps = sym_nac(ph.primitive, rng)
        except ValueError:
            return Out(nontrivial=False, classes=["skipped"])
        ph.nac_params = {"born": Z, "dielectric": eps, "factor": 14.4, "method": "wang"}
    prim = ph.primitive
    Lp = prim.cell
    q = np.array(spec["q"])
    if spec["nac"] == "wang" and np.linalg.norm(np.linalg.inv(Lp) @ q) < 1e-2:
        return Out(nontrivial=False, classes=["skipped_near_gamma"])
    dm = ph.dynamical_matrix

    def Dq(qr):
        dm.run(qr)
        return dm.dynamical_matrix.copy()

    h = 1e-4
    num = []
    for a in range(3):
        dqc = np.zeros(3)
        dqc[a] = h
        dq = Lp @ dqc  # q_red = L q_cart
        d1 = (Dq(q + dq) - Dq(q - dq)) / (2 * h)
        d2 = (Dq(q + 2 * dq) - Dq(q - 2 * dq)) / (4 * h)
        num.append((4 * d1 - d2) / 3)
    num = np.array(num)
    # natural magnitude of dD/dq: (|fc|/m) * 2 pi * cell size
    sc = max(np.abs(num).max(), 1e-3 * np.abs(fc_full).max() / prim.masses.min() * 2 * np.pi * float(np.cbrt(abs(np.linalg.det(ph.supercell.cell)))))
    ddm = DerivativeOfDynamicalMatrix(dm)
    worst = 0.0
    res = {}
    # the Python reference supports the full layout only (it asserts a square array)
    for lang in ("C",) if spec["compact"] else ("C", "Py"):
        ddm.run(q, lang=lang)
        a = ddm.d_dynamical_matrix.copy()
        res[lang] = a
        e = np.abs(a - num).max() / sc
        worst = max(worst, e)
        if e > 1e-6:
            k = int(np.argmax(np.abs(a - num).max(axis=(1, 2))))
            return Out(ok=False, info={"err": e}, msg="dD/dq (%s) differs from the finite difference of D(q): rel %.3e in Cartesian component %d "
                       "(model %s, nac %s, %s, q=%s)" % (lang, e, k, spec["model"], spec["nac"], "compact" if spec["compact"] else "full", q.tolist()))
        for k in range(3):
            if np.abs(a[k] - a[k].conj().T).max() > 1e-10 * sc:
                return Out(ok=False, msg="dD/dq_%d (%s) is not Hermitian: %.3e (model %s)" % (k, lang, np.abs(a[k] - a[k].conj().T).max() / sc, spec["model"]))
    e = np.abs(res["C"] - res["Py"]).max() / sc if "Py" in res else 0.0
    if e > 1e-10:
        return Out(ok=False, msg="C and Py derivatives differ: %.3e" % e)
    return Out(ok=True, nontrivial=len(prim) >= 2 or True, classes=[spec["model"], "nac:" + spec["nac"], "compact" if spec["compact"] else "full"],
               info={"err": worst})


@st.composite
def gv_specs(draw, tier):
    b = draw(base(tier, max_atoms=24))
    b["model"] = draw(st.sampled_from(["springs", "springs", "dense"]))
    b["nac"] = draw(st.sampled_from(["none", "none", "wang", "gonze"]))
    b["q_length"] = draw(st.sampled_from([None, None, 1e-5, 1e-4]))
    b["via"] = draw(st.sampled_from(["qpoints", "band", "mesh", "class"]))
    b["gv_cutoff"] = draw(st.sampled_from([None, 1e-4, 0.05, 0.5, 1.5]))  # cutoff_frequency of the GroupVelocity class (THz)
    return b


def _maps_to_q_plus_G(rots, q):
    """some point-group operation (or its product with time reversal) sends q to q + G with G a non-zero reciprocal lattice vector"""
    for r in rots:
        for sgn in (1, -1):
            d = sgn * (r.T @ q) - q
            if np.abs(d - np.rint(d)).max() < 1e-5 and np.abs(np.rint(d)).max() > 0:
                return True
    return False


GV_FAC_SPEC = {"crystal": {"kind": "hall", "key": 0, "hall": 3, "norbits": 2, "max_unit": 6, "perm": False, "rot": False, "masses": False},
               "smat": [[1, 0, 0], [0, 1, 0], [0, 0, 1]], "key": 0, "pmat": "none", "compact": False, "q": [0.0, 1.0, 0.5], "model": "springs",
               "nac": "wang", "q_length": None, "via": "qpoints", "gv_cutoff": None}


def _repro_fac():
    return "excluded_known:F-ac" in run_gv(dict(GV_FAC_SPEC))["classes"]


def run_gv(spec):
    ph, c, out = _phonopy(spec, group_velocity_delta_q=spec["q_length"])
    if ph is None:
        return out
    rng = rng_from(spec["key"])
    _set_fc(ph, spec, rng)
    prim = ph.primitive
    if spec["nac"] != "none":
        try:
            Z, eps = sym_nac(prim, rng)
        except ValueError:
            return Out(nontrivial=False, classes=["skipped"])
        ph.nac_params = {"born": Z, "dielectric": eps, "factor": 14.4, "method": spec["nac"]}
    Lp = prim.cell
    # q on a 1e-4 grid: a q-point closer than the symmetry tolerance (1e-5) to a special point is treated by phonopy AS that special
    # point when group velocities are symmetrised, which is exact only in the limit (deviation = curvature x distance)
    q = np.round(np.array(spec["q"], dtype=float), 4)
    if np.linalg.norm(np.linalg.inv(Lp) @ (q - np.rint(q))) < 2e-2:
        return Out(nontrivial=False, classes=["skipped_near_gamma"])
    # domain: group velocities are symmetrised with the primitive cell's point group; a supercell that lowers the point
    # group (phonopy warns) makes that symmetrisation physically wrong at q-points with a non-trivial little group
    rp = np.unique(own_ops(prim)[0], axis=0)
    rs = np.unique(own_ops(ph.supercell)[0], axis=0)
    if len(rp) != len(rs):
        for r in rp:
            for sgn in (1, -1):  # -R: combined with time reversal, as in phonopy's reciprocal operations
                if sgn == 1 and np.array_equal(r, np.eye(3, dtype=int)):
                    continue
                dq_ = sgn * (r.T @ q) - q
                if np.abs(dq_ - np.rint(dq_)).max() < 1e-5:
                    return Out(nontrivial=False, classes=["skipped_pointgroup_lowered_special_q"])
    fcut = 5e-2
    if spec["via"] == "band":
        u = np.array([0.013, -0.007, 0.011])
        ph.run_band_structure([[q - u, q, q + u]], with_group_velocities=True)
        bd = ph.get_band_structure_dict()
        if np.abs(np.array(bd["qpoints"][0][1]) - q).max() > 1e-12:
            return Out(ok=False, msg="band path does not contain the requested q-point")
        f0, gv = bd["frequencies"][0][1], bd["group_velocities"][0][1]
    elif spec["via"] == "class":
        # the GroupVelocity class itself, with its documented cutoff_frequency (modes at or below it are reported with zero velocity)
        from phonopy.phonon.group_velocity import GroupVelocity

        kw = {} if spec.get("gv_cutoff") is None else {"cutoff_frequency": spec["gv_cutoff"]}
        if spec["q_length"] is not None:
            kw["q_length"] = spec["q_length"]
        gvo = GroupVelocity(ph.dynamical_matrix, symmetry=ph.primitive_symmetry, frequency_factor_to_THz=ph.unit_conversion_factor, **kw)
        gvo.run([q])
        gv = gvo.group_velocities[0]
        f0 = ph.get_frequencies(q)
        fcut = max(fcut, spec.get("gv_cutoff") or 0.0)
        below = f0 <= (spec.get("gv_cutoff") or 1e-4)
        if below.any() and np.abs(gv[below]).max() > 0:
            return Out(ok=False, msg="GroupVelocity(cutoff_frequency=%r) reports a non-zero velocity for a mode at %.4g THz" % (spec.get("gv_cutoff"), f0[below].max()))
    else:
        ph.run_qpoints([q], with_group_velocities=True)
        d = ph.get_qpoints_dict()
        f0, gv = d["frequencies"][0], d["group_velocities"][0]

    def freqs(qr):
        return ph.get_frequencies(qr)

    h = 1e-6
    grad = np.zeros_like(gv)
    for a in range(3):
        dqc = np.zeros(3)
        dqc[a] = h
        dq = Lp @ dqc
        g1 = (freqs(q + dq) - freqs(q - dq)) / (2 * h)
        g2 = (freqs(q + 2 * dq) - freqs(q - 2 * dq)) / (4 * h)
        grad[:, a] = (4 * g1 - g2) / 3
    # documented unit: THz * Angstrom, q in 1/Angstrom without 2 pi
    gaps = np.min(np.abs(f0[:, None] - f0[None, :]) + np.eye(len(f0)) * 1e9, axis=1)
    vmax = max(np.abs(grad).max(), 1e-12)
    # modes above the cutoff only (imaginary modes are reported with zero velocity by design)
    ok = (gaps > max(1e-2, 50 * vmax * h)) & (f0 > fcut * (1 + 1e-9))
    if not ok.any():
        return Out(nontrivial=False, classes=["all_modes_degenerate_or_soft"])
    vscale = max(np.abs(grad[ok]).max(), 0.05 * float(np.abs(f0).max()) * float(np.cbrt(abs(np.linalg.det(Lp)))))
    e = np.abs(gv[ok] - grad[ok]).max() / vscale
    tol = 1e-5 if spec["q_length"] in (None, 1e-5) else 3e-3
    if spec["nac"] == "gonze":
        tol = max(tol, 1e-4)
    if e > tol and spec["nac"] == "wang" and _maps_to_q_plus_G(rp, q):
        # signature of known finding F-ac: Wang's interpolation is not periodic in q, yet the velocities are averaged over operations
        # that bring q back only up to a reciprocal lattice vector. Narrow: the velocity WITHOUT that averaging must equal the gradient.
        from phonopy.phonon.group_velocity import GroupVelocity

        kw = {} if spec["q_length"] is None else {"q_length": spec["q_length"]}
        g0 = GroupVelocity(ph.dynamical_matrix, symmetry=None, frequency_factor_to_THz=ph.unit_conversion_factor, **kw)
        g0.run([q])
        if np.abs(g0.group_velocities[0][ok] - grad[ok]).max() / vscale <= tol:
            return Out(ok=True, nontrivial=False, classes=["excluded_known:F-ac"], info={"err": e})
    if e > tol:
        return Out(ok=False, info={"err": e}, msg="group velocity differs from the gradient of the reported frequency: rel %.3e (nac %s, q_length %s, via %s, "
                   "q=%s, %d modes compared)" % (e, spec["nac"], spec["q_length"], spec["via"], q.tolist(), int(ok.sum())))
    outside = bool(np.abs(q).max() > 0.5)
    return Out(ok=True, nontrivial=len(prim) >= 2 or outside, classes=["nac:" + spec["nac"], "ql:%s" % spec["q_length"], "via:" + spec["via"]] + (["gv_cutoff:%s" % spec.get("gv_cutoff")] if spec["via"] == "class" else []) + [
                                                                        "outside_bz" if outside else "inside_bz", "skipped_modes:%d" % int((~ok).sum())],
               info={"err": e})


@st.composite
def gr_specs(draw, tier):
    b = draw(base(tier, max_atoms=24, kinds=("hall", "proto", "centred")))
    b["n"] = draw(st.sampled_from([1, 1, 2]))
    b["g"] = draw(st.floats(0.5, 3.0, allow_nan=False))
    b["a"] = draw(st.sampled_from([1e-3, 1e-2, 2e-2, 5e-2]))
    b["b"] = draw(st.sampled_from(["same", "same", 1e-3, 1e-2, 3e-2, 0.1]))
    b["mesh"] = draw(st.lists(st.integers(1, 3), min_size=3, max_size=3))
    b["explicit_delta"] = draw(st.booleans())
    b["gc"] = draw(st.booleans())
    # volume changed isotropically (closed form available), or by straining one axis only: the strained cells then have LOWER symmetry than
    # the reference, and only the agreement between symmetry-reduced and full meshes is asserted
    b["strain"] = draw(st.sampled_from(["iso", "iso", "axis0", "axis2"]))
    # frequency unit of the three Phonopy objects (factor argument): THz (default), the same x 2, cm^-1
    b["unit"] = draw(st.sampled_from([None, None, 2.0, 33.35641]))
    b["gnac"] = draw(st.sampled_from([False, False, False, True]))
    return b


def run_gruneisen(spec):
    from phonopy import Phonopy, PhonopyGruneisen
    from phonopy.structure.atoms import PhonopyAtoms

    c = build_crystal(spec["crystal"])
    if c is None:
        return Out(nontrivial=False, classes=["discarded_overlap"])
    cell = c["cell"]
    if len(cell) * spec["n"] ** 3 > 32:
        return Out(nontrivial=False, classes=["too_large"])
    S = np.eye(3, dtype=int) * spec["n"]
    g = spec["g"]
    a = spec["a"]
    b = a if spec["b"] == "same" else spec["b"]
    phs = []
    try:
        ph0 = Phonopy(cell, supercell_matrix=S, primitive_matrix="auto", log_level=0)
    except Exception as e:
        return Out(nontrivial=False, rejected=True, classes=["ctor_rejected:" + type(e).__name__])
    from phonopy.units import VaspToTHz

    fr = float(spec.get("unit") or 1.0)
    kwf = {} if spec.get("unit") is None else {"factor": VaspToTHz * fr}
    fc0 = springs_fc(ph0.supercell)
    strain = spec.get("strain", "iso")
    for scale in (1.0, 1 + a, 1 - b):
        if strain == "iso":
            L = cell.cell * scale ** (1 / 3)
        else:
            L = cell.cell.copy()
            L[:, int(strain[-1])] *= scale  # Cartesian component along one axis: volume x scale, shape changed
        cc = PhonopyAtoms(symbols=cell.symbols, cell=L, scaled_positions=cell.scaled_positions, masses=cell.masses)
        try:
            ph = Phonopy(cc, supercell_matrix=S, primitive_matrix=ph0.primitive_matrix, log_level=0, **kwf)
        except Exception as e:
            return Out(nontrivial=False, rejected=True, classes=["ctor_rejected:" + type(e).__name__])
        # isotropic: exactly uniform scaling; one axis: the spring model re-evaluated on the strained geometry (symmetry of the strained cell)
        ph.force_constants = fc0 * scale ** (-2 * g) if strain == "iso" else springs_fc(ph.supercell)
        phs.append(ph)
    delta = (a + b) if spec["explicit_delta"] else None
    if spec.get("gnac"):
        # polar crystal: the frequencies reported along a band path of several segments are those of the reference object, at the zone
        # centre in the limit along the segment the point belongs to
        try:
            Zg, epsg = sym_nac(phs[0].primitive, rng_from(spec["key"], 5))
        except ValueError:
            return Out(nontrivial=False, classes=["skipped"])
        for ph_ in phs:
            ph_.nac_params = {"born": Zg.copy(), "dielectric": epsg.copy(), "factor": 14.4}
        grn = PhonopyGruneisen(phs[0], phs[1], phs[2], delta_strain=delta)
        segs = [np.array([[0.5, 0.0, 0.0], [0.25, 0.0, 0.0], [0.0, 0.0, 0.0]]), np.array([[0.0, 0.0, 0.0], [0.0, 0.15, 0.2], [0.0, 0.3, 0.4]]),
                np.array([[0.3, 0.3, 0.0], [0.15, 0.15, 0.0], [0.0, 0.0, 0.0]])]
        grn.set_band_structure(segs)
        bsn = grn.get_band_structure()
        for k, seg in enumerate(segs):
            fseg = np.array(bsn[2][k])
            for j, qq in enumerate(seg):
                if np.abs(qq).max() < 1e-12:
                    phs[0].run_qpoints([qq], nac_q_direction=seg[0] - seg[-1])
                else:
                    phs[0].run_qpoints([qq])
                fr_ = phs[0].get_qpoints_dict()["frequencies"][0]
                if np.abs(np.sort(fseg[j]) - np.sort(fr_)).max() > 1e-6 * max(float(np.abs(fr_).max()), 1e-300):
                    return Out(ok=False, msg="Grueneisen band structure with NAC, segment %d point %s: frequencies %s differ from the reference object's %s "
                               "(zone centre taken in the limit along the segment)" % (k, qq.tolist(), np.sort(fseg[j]).tolist(), np.sort(fr_).tolist()))
        return Out(ok=True, nontrivial=True, classes=["gruneisen_band_with_nac", "unit_x%g" % fr])
    gr = PhonopyGruneisen(phs[0], phs[1], phs[2], delta_strain=delta)
    closed = -((1 + a) ** (-2 * g) - (1 - b) ** (-2 * g)) / (2 * (a + b))
    res = {}
    for ms in (True, False):
        gr.set_mesh(spec["mesh"], is_mesh_symmetry=ms, is_gamma_center=spec["gc"])
        q, w, f, ev, gam = gr.get_mesh()
        res[ms] = (np.array(w), np.array(f), np.array(gam))
    w, f, gam = res[False]
    fscale = float(np.sqrt(np.abs(fc0).max() / phs[0].primitive.masses.min())) * VaspToTHz * fr
    # the frequencies reported next to the Grueneisen parameters are those of the reference object, in its unit
    fq_ref = np.array([phs[0].get_frequencies(qq) for qq in q])
    if np.abs(np.sort(f, axis=1) - np.sort(fq_ref, axis=1)).max() > 1e-7 * max(float(np.abs(fq_ref).max()), 1e-300):
        return Out(ok=False, msg="mesh frequencies reported with the Grueneisen parameters differ from the reference object's own (unit factor x %g): max %.4g vs %.4g"
                   % (fr, float(np.abs(f).max()), float(np.abs(fq_ref).max())))
    fmax = max(float(np.abs(f).max()), 0.05 * fscale)

    def clean_modes(ff):
        """True for modes whose cluster of near neighbours (chained gaps < 5e-3 THz, i.e. inside or next to the code's own degeneracy
        tolerance of 1e-4 x unit factor = 1.6e-3 THz) is either a singleton or exactly degenerate. (Until fix F-aa the tolerance was
        applied to eigenvalues and this filter had been widened to 2 % of the spectrum - which hid that defect.)"""
        okm = np.zeros(ff.shape, dtype=bool)
        for i in range(ff.shape[0]):
            order = np.argsort(ff[i])
            srt = ff[i][order]
            start = 0
            for k in range(1, len(srt) + 1):
                if k == len(srt) or srt[k] - srt[k - 1] > 5e-3 * fr:  # THz: three times the code's degeneracy tolerance 1e-4 x unit factor
                    if srt[k - 1] - srt[start] < 1e-7 * fmax:
                        okm[i, order[start:k]] = True
                    start = k
        return okm

    if strain != "iso":
        def moments_(w_, f_, g_):
            okk = (f_ > 1e-2 * fmax) & clean_modes(f_)
            W = np.repeat(w_[:, None], f_.shape[1], axis=1)[okk]
            return np.array([W.sum(), (W * f_[okk]).sum(), (W * g_[okk]).sum(), (W * g_[okk] ** 2).sum(), (W * g_[okk] * f_[okk] ** 2).sum()]) / w_.sum()

        ma, mb = moments_(*res[True]), moments_(*res[False])
        e2 = np.abs(ma - mb).max() / max(1.0, np.abs(mb).max())
        if e2 > 1e-6:
            return Out(ok=False, info={"err": e2}, msg="volume changed by straining %s only: weighted moments of (omega, gamma) differ between symmetry-reduced and "
                       "full mesh: %.3e (%d vs %d q-points)" % (strain, e2, len(res[True][0]), len(res[False][0])))
        return Out(ok=True, nontrivial=len(res[True][0]) < len(res[False][0]), classes=["strain:" + strain, "reduced" if len(res[True][0]) < len(res[False][0]) else "noreduction"],
                   info={"err": e2})
    ok = (f > 1e-2 * fmax) & clean_modes(f)
    if not ok.any():
        return Out(nontrivial=False, classes=["no_modes"])
    e = np.abs(gam[ok] - closed).max()
    if e > 1e-7 * max(1.0, abs(closed)):
        return Out(ok=False, info={"err": e}, msg="mode Grueneisen parameters differ from the closed form %.9f for fc ~ (V/V0)^(-2g), g=%.4f, volumes V0(1+%g), "
                   "V0(1-%g): max deviation %.3e (delta_strain %s)" % (closed, g, a, b, e, "explicit" if spec["explicit_delta"] else "default"))
    # band-structure route gives the same numbers
    gr.set_band_structure([[[0.11, 0.23, 0.31], [0.37, 0.41, 0.13]]])
    bs = gr.get_band_structure()
    gam_b = np.array(bs[4][0])
    f_b = np.array(bs[2][0])
    fb_ref = np.array([phs[0].get_frequencies(qq) for qq in bs[0][0]])
    if np.abs(np.sort(f_b, axis=1) - np.sort(fb_ref, axis=1)).max() > 1e-7 * max(float(np.abs(fb_ref).max()), 1e-300):
        return Out(ok=False, msg="band-structure frequencies reported with the Grueneisen parameters differ from the reference object's own (unit factor x %g): "
                   "max %.4g vs %.4g" % (fr, float(np.abs(f_b).max()), float(np.abs(fb_ref).max())))
    okb = (f_b > 1e-2 * fmax) & clean_modes(f_b)
    if okb.any() and np.abs(gam_b[okb] - closed).max() > 1e-7 * max(1.0, abs(closed)):
        return Out(ok=False, msg="band-structure Grueneisen parameters differ from the closed form: %.3e" % np.abs(gam_b[okb] - closed).max())

    def moments(w, f, gam):
        okk = (f > 1e-2 * fmax) & clean_modes(f)
        W = np.repeat(w[:, None], f.shape[1], axis=1)[okk]
        return np.array([W.sum(), (W * f[okk]).sum(), (W * gam[okk]).sum(), (W * gam[okk] * f[okk] ** 2).sum()]) / w.sum()

    ma, mb = moments(*res[True]), moments(*res[False])
    e2 = np.abs(ma - mb).max() / max(1.0, np.abs(mb).max())
    if e2 > 1e-6:
        return Out(ok=False, msg="weighted moments of (omega, gamma) differ between symmetry-reduced and full mesh: %.3e" % e2)
    return Out(ok=True, nontrivial=True, classes=["unit_x%g" % fr, "asym" if spec["b"] != "same" else "sym", "delta:" + ("explicit" if spec["explicit_delta"] else "default"),
                                                  "reduced" if len(res[True][0]) < len(res[False][0]) else "noreduction"], info={"err": e})


KNOWN_REPRO = {"F-ac": _repro_fac}

SUBCHECKS = [
    Sub("ddm", run=run_ddm, strategy=ddm_specs, examples={"quick": 400, "thorough": 15000}, shards={"quick": 8, "thorough": 16},
        budget={"quick": 110, "thorough": 1800}, what="DerivativeOfDynamicalMatrix (C, Py) == Richardson finite difference of DynamicalMatrix.run; Hermitian; none/wang NAC"),
    Sub("group_velocity", run=run_gv, strategy=gv_specs, examples={"quick": 400, "thorough": 12000}, shards={"quick": 8, "thorough": 16},
        budget={"quick": 110, "thorough": 1800}, what="reported group velocity == Cartesian gradient of the reported frequency on non-degenerate modes"),
    Sub("gruneisen", run=run_gruneisen, strategy=gr_specs, examples={"quick": 900, "thorough": 6000}, shards={"quick": 8, "thorough": 16},
        budget={"quick": 110, "thorough": 1800}, what="closed-form gamma for fc ~ V^(-2g) with (a)symmetric volume triples; band route; reduced mesh == full mesh"),
]
