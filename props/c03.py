"""C03 Dynamical matrix is Hermitian, time-reversal, G-periodic, symmetry-invariant; ASR; scaling."""
import numpy as np
from hypothesis import strategies as st

from gen.crystals import build_crystal, crystal_with_supercell, keys, qpoint_strategy
from oracles.models import dense_fc, own_ops, sym_nac
from vlib.case import Out, Sub, relerr, rng_from

PROPERTY = "C03"
TECHNIQUE = "property-based testing (Hypothesis): metamorphic relations on D(q) (Hermiticity, time reversal, q+G, Rq, sum rule, s/t scaling)"
RULE = ("Crystals/supercells as in C01 (all kinds, optional sub-tolerance positional noise). 'basic': arbitrary random "
        "force constants without any symmetry, random q and G; 'rotation': dense models projected onto the supercell "
        "space group by our own projector, R ranges over our own list of supercell point-group operations expressed in "
        "the primitive basis (and phonopy's reciprocal_operations when the supercell keeps the primitive point group); "
        "'asr': sum-rule models at Gamma; 'scaling': s,t log-uniform in [1e-12,1e12]. Non-trivial: G != 0, q generic, "
        "R not +-identity, s/t != 1, natom >= 2 or non-orthogonal lattice. Distinct by spec hash.")
ASSUMPTIONS = [
    "symmetry invariance is asserted only for operations present in the supercell's own space group (a supercell-periodic "
    "array cannot carry more symmetry); the operations come from spglib's raw search, not from phonopy",
]


def _pmat(pm, c):
    if pm == "none":
        return None
    if pm == "centring":
        return c["centring"] if c["centring"] else "auto"
    return pm


def _build(spec, **kw):
    from phonopy import Phonopy

    c = build_crystal(spec["crystal"])
    if c is None:
        return None, Out(nontrivial=False, classes=["discarded_overlap"])
    try:
        ph = Phonopy(c["cell"], supercell_matrix=np.array(spec["smat"]), primitive_matrix=_pmat(spec["pmat"], c),
                     store_dense_svecs=spec.get("dense_svecs", True), log_level=0, **kw)
    except Exception as e:
        return None, Out(nontrivial=False, rejected=True, classes=["ctor_rejected:" + type(e).__name__])
    return ph, None


def _D(ph, q, lang="C"):
    if ph.dynamical_matrix.is_nac():
        ph.dynamical_matrix.run(q)  # NAC classes take no lang argument
        return ph.dynamical_matrix.dynamical_matrix.copy()
    ph.dynamical_matrix.run(q, lang=lang)
    return ph.dynamical_matrix.dynamical_matrix.copy()


@st.composite
def base_specs(draw, tier, noise=False, max_unit=8, kinds=("hall", "proto", "centred", "p1")):
    max_atoms = 40 if tier == "quick" else 64
    b = draw(crystal_with_supercell(max_atoms=max_atoms, max_unit=max_unit, max_det=8, noise=noise, kinds=kinds))
    b.update(key=draw(keys), pmat=draw(st.sampled_from(["none", "auto", "centring", "P"])),
             dense_svecs=draw(st.booleans()), compact=draw(st.booleans()))
    return b


@st.composite
def basic_specs(draw, tier):
    b = draw(base_specs(tier))
    b["q"] = draw(qpoint_strategy())
    b["G"] = draw(st.lists(st.integers(-3, 3), min_size=3, max_size=3))
    b["periodic"] = draw(st.booleans())
    return b


def run_basic(spec):
    ph, out = _build(spec)
    if ph is None:
        return out
    n = len(ph.supercell)
    rng = rng_from(spec["key"])
    prim = ph.primitive
    fc = rng.normal(size=(n, n, 3, 3))
    if spec["compact"]:
        fc = np.array(fc[prim.p2s_map], order="C")
    ph.force_constants = fc
    q = np.array(spec["q"], dtype=float)
    G = np.array(spec["G"], dtype=float)
    worst = 0
    Ds = {}
    for lang in ("C", "Py"):
        d = _D(ph, q, lang)
        Ds[lang] = d
        sc = max(np.abs(d).max(), 1e-300)
        e = np.abs(d - d.conj().T).max() / sc
        if e > 1e-12:
            return Out(ok=False, msg="D(q) not Hermitian (%s): %.3e at q=%s" % (lang, e, q.tolist()))
        dm = _D(ph, -q, lang)
        e2 = np.abs(dm - d.conj()).max() / sc
        if e2 > 1e-11:
            return Out(ok=False, msg="D(-q) != conj D(q) (%s): %.3e at q=%s" % (lang, e2, q.tolist()))
        dG = _D(ph, q + G, lang)
        ev = np.linalg.eigvalsh(d)
        e3 = np.abs(np.linalg.eigvalsh(dG) - ev).max() / max(np.abs(ev).max(), 1e-300)
        if e3 > 1e-9:
            return Out(ok=False, msg="spectrum(q+G) != spectrum(q) (%s): %.3e at q=%s G=%s" % (lang, e3, q.tolist(), G.tolist()))
        worst = max(worst, e, e2, e3)
    e4 = relerr(Ds["C"], Ds["Py"])
    if e4 > 1e-11:
        return Out(ok=False, msg="C and Py dynamical matrices differ: %.3e at q=%s" % (e4, q.tolist()))
    nontriv = bool(np.any(G != 0)) and np.abs(q).max() > 1e-6
    return Out(ok=True, nontrivial=nontriv, info={"err": max(worst, e4)},
               classes=["compact" if spec["compact"] else "full", spec["crystal"]["kind"]])


@st.composite
def rot_specs(draw, tier):
    b = draw(base_specs(tier, noise=True, kinds=("hall", "proto", "proto")))
    b["q"] = draw(st.lists(st.floats(-1, 1, allow_nan=False, width=64), min_size=3, max_size=3))
    b["nac"] = draw(st.sampled_from(["none", "none", "wang", "gonze"]))
    return b


def run_rotation(spec):
    ph, out = _build(spec)
    if ph is None:
        return out
    scell = ph.supercell
    prim = ph.primitive
    rng = rng_from(spec["key"])
    noise = float(spec["crystal"].get("noise") or 0.0)
    try:
        fcs, nops = dense_fc(scell, rng)
    except ValueError:
        return Out(nontrivial=False, classes=["skipped_noisy_ops"])
    ph.force_constants = np.array(fcs[prim.p2s_map], order="C") if spec["compact"] else fcs
    q = np.array(spec["q"], dtype=float)
    nac = spec.get("nac", "none")
    nat = float(np.abs(fcs).max() / prim.masses.min())
    if nac != "none":
        if noise or np.linalg.norm(np.linalg.inv(prim.cell) @ (q - np.rint(q))) < 5e-2:
            return Out(nontrivial=False, classes=["skipped_nac_case"])
        try:
            Z, eps = sym_nac(prim, rng)
        except ValueError:
            return Out(nontrivial=False, classes=["skipped_nac_case"])
        ph.nac_params = {"born": Z, "dielectric": eps, "factor": 14.4, "method": nac}
        nat = max(nat, 14.4 * 4 * np.pi / prim.volume * float(np.abs(Z).max()) ** 2 / float(np.linalg.eigvalsh(eps).min()) / prim.masses.min())
    d = _D(ph, q)
    if nac != "none":
        if np.abs(d - d.conj().T).max() > 1e-12 * nat:
            return Out(ok=False, msg="D(q) with %s NAC is not Hermitian at q=%s" % (nac, q.tolist()))
        if np.abs(_D(ph, -q) - d.conj()).max() > 1e-10 * nat:
            return Out(ok=False, msg="D(-q) != conj D(q) with %s NAC at q=%s" % (nac, q.tolist()))
    ev = np.linalg.eigvalsh(d)
    sc = max(np.abs(ev).max(), nat)
    tol = max(1e-9, 2000 * noise)
    if nac == "gonze":  # precision of the truncated reciprocal sum, see C08
        w = np.linalg.eigvalsh((eps + eps.T) / 2)
        tol = max(1e-6, 30 * 1e-10 ** (w.min() / (w.sum() / 3)))
    rs = np.unique(own_ops(scell)[0], axis=0)
    pm = prim.primitive_matrix  # relative to the supercell
    ops = []
    for r in rs:
        rp = np.linalg.inv(pm) @ r @ pm
        if np.abs(rp - np.rint(rp)).max() > 1e-6:
            return Out(ok=False, msg="supercell rotation is not integral in the primitive basis: %s" % rp)
        ops.append(np.rint(rp).astype(int))
    worst = 0
    if nac == "none" and len(ops) >= 2:
        # the same star of q through the batched solver, handed over the way a user computes it: (R^T Q^T)^T is Fortran-ordered
        from phonopy.harmonic.dynamical_matrix import run_dynamical_matrix_solver_c

        Rq = np.array([rp.T @ q for rp in ops])
        batch = np.array(Rq.T, order="C").T  # logical rows R^T q, memory column-major
        Db = run_dynamical_matrix_solver_c(ph.dynamical_matrix, batch)
        for k, rp in enumerate(ops):
            e = np.abs(np.linalg.eigvalsh(Db[k]) - ev).max() / sc
            if e > tol:
                return Out(ok=False, info={"err": e}, msg="batched solver on a column-major array of rotated q-points: spectrum(Rq) != spectrum(q): %.3e for "
                           "R^T=%s q=%s" % (e, rp.T.tolist(), q.tolist()))
    for rp in ops:
        e = np.abs(np.linalg.eigvalsh(_D(ph, rp.T @ q)) - ev).max() / sc
        worst = max(worst, e)
        if e > tol:
            return Out(ok=False, info={"err": e}, msg="spectrum(Rq) != spectrum(q): %.3e for R^T=%s q=%s (noise %g, %d ops)"
                       % (e, rp.T.tolist(), q.tolist(), noise, len(ops)))
    classes = ["nops:%d" % min(len(ops), 48), "noise" if noise else "exact", spec["crystal"]["kind"], "nac:" + nac]
    rp_own = np.unique(own_ops(prim)[0], axis=0)
    if len(rp_own) == len(ops):
        classes.append("pointgroup_kept")
        for R in ph.primitive_symmetry.reciprocal_operations:
            e = np.abs(np.linalg.eigvalsh(_D(ph, R @ q)) - ev).max() / sc
            worst = max(worst, e)
            if e > tol:
                return Out(ok=False, info={"err": e}, msg="spectrum(Rq) != spectrum(q) for phonopy's reciprocal operation %s: %.3e"
                           % (R.tolist(), e))
    else:
        classes.append("pointgroup_lowered")
    nontriv = len(ops) > 2 and np.abs(q).min() > 1e-3
    return Out(ok=True, nontrivial=nontriv, classes=classes, info={"err": worst, "err_nac_" + nac: worst if not noise else 0.0})


@st.composite
def asr_specs(draw, tier):
    b = draw(base_specs(tier))
    b["space_group"] = draw(st.booleans())
    return b


def run_asr(spec):
    ph, out = _build(spec)
    if ph is None:
        return out
    rng = rng_from(spec["key"])
    fcs, nops = dense_fc(ph.supercell, rng, asr=True, space_group=True if spec["space_group"] else "translations")
    ph.force_constants = np.array(fcs[ph.primitive.p2s_map], order="C") if spec["compact"] else fcs
    worst = 0
    for lang in ("C", "Py"):
        ev = np.linalg.eigvalsh(_D(ph, [0, 0, 0], lang))
        small = np.sort(np.abs(ev))[:3].max()
        e = small / (np.abs(fcs).max() / ph.primitive.masses.min())
        worst = max(worst, e)
        if e > 1e-9:
            return Out(ok=False, msg="sum-rule force constants do not give three zero eigenvalues at Gamma (%s): %.3e" % (lang, e))
    fr = ph.get_frequencies([0, 0, 0])
    fscale = np.sqrt(np.abs(fcs).max() / ph.primitive.masses.min()) * ph.unit_conversion_factor
    if np.sort(np.abs(fr))[:3].max() > 1e-4 * fscale:
        return Out(ok=False, msg="acoustic frequencies at Gamma not zero: %s" % np.sort(np.abs(fr))[:3])
    return Out(ok=True, nontrivial=len(ph.primitive) >= 1, info={"err": worst},
               classes=["sg" if spec["space_group"] else "nosg", "compact" if spec["compact"] else "full"])


@st.composite
def scale_specs(draw, tier):  # noqa: D103
    b = draw(base_specs(tier))
    b["q"] = draw(qpoint_strategy())
    b["log_s"] = draw(st.floats(-12, 12, allow_nan=False))
    b["log_t"] = draw(st.floats(-12, 12, allow_nan=False))
    b["model"] = draw(st.sampled_from(["random", "decay", "sym"]))
    b["cell_by"] = draw(st.sampled_from(["symbols", "numbers"]))
    return b


def run_scaling(spec):
    ph, out = _build(spec)
    if ph is None:
        return out
    rng = rng_from(spec["key"])
    scell = ph.supercell
    n = len(scell)
    if spec["model"] == "sym":
        fc, _ = dense_fc(scell, rng)
    else:
        fc = rng.normal(size=(n, n, 3, 3))
        if spec["model"] == "decay":
            # distance-decaying magnitudes spanning many decades, like real force constants
            pos = scell.scaled_positions
            d = pos[:, None, :] - pos[None, :, :]
            d -= np.rint(d)
            r = np.linalg.norm(d @ scell.cell, axis=2)
            fc *= np.exp(-3.0 * r)[:, :, None, None]
    p2s = ph.primitive.p2s_map
    q = np.array(spec["q"], dtype=float)
    s = 10.0 ** spec["log_s"]
    t = 10.0 ** spec["log_t"]
    ph.force_constants = np.array(fc[p2s], order="C") if spec["compact"] else fc.copy()
    m0 = ph.masses.copy()
    ev0 = np.linalg.eigvalsh(_D(ph, q))
    ph.force_constants = (np.array(fc[p2s], order="C") if spec["compact"] else fc.copy()) * s
    ph.masses = m0 * t
    ev1 = np.linalg.eigvalsh(_D(ph, q))
    if not np.abs(fc).max() > 0:
        return Out(nontrivial=False, classes=["discarded_zero_model"])  # a lone atom with the sum rule: all force constants vanish
    # the same masses given when the cell is constructed (by symbols or by atomic numbers) instead of through the setter
    from phonopy import Phonopy
    from phonopy.structure.atoms import PhonopyAtoms

    uc = ph.unitcell
    mu = np.array([(m0 * t)[ph.primitive.p2p_map[ph.primitive.s2p_map[k]]] for k in ph.supercell.u2s_map])
    how = spec.get("cell_by", "symbols")
    ckw = {"symbols": list(uc.symbols)} if how == "symbols" else {"numbers": np.array(uc.numbers)}
    cell2 = PhonopyAtoms(cell=uc.cell, scaled_positions=uc.scaled_positions, masses=mu, **ckw)
    if np.abs(np.asarray(cell2.masses) - mu).max() > 0:
        return Out(ok=False, msg="PhonopyAtoms(%s=..., masses=m) reports masses different from m" % how)
    try:
        ph2 = Phonopy(cell2, supercell_matrix=ph.supercell_matrix, primitive_matrix=ph.primitive_matrix, store_dense_svecs=spec.get("dense_svecs", True), log_level=0)
    except Exception:
        ph2 = None
    if ph2 is not None and len(ph2.primitive) == len(ph.primitive):
        ph2.force_constants = (np.array(fc[p2s], order="C") if spec["compact"] else fc.copy()) * s
        ev2 = np.linalg.eigvalsh(_D(ph2, q))
        e2 = np.abs(ev2 - ev0 * (s / t)).max() / (np.abs(fc).max() / m0.min() * (s / t))
        if not e2 < 1e-9:
            return Out(ok=False, info={"err": e2}, msg="masses given at construction of the cell (%s=...) : eigenvalues do not scale by s/t: rel err %.3e "
                       "for s=%.3e t=%.3e" % (how, e2, s, t))
    ev1p = np.linalg.eigvalsh(_D(ph, q, "Py"))
    want = ev0 * (s / t)
    sc = np.abs(fc).max() / m0.min() * (s / t)  # natural scale of D entries after scaling
    if not sc > 0:
        return Out(nontrivial=False, classes=["discarded_zero_model"])  # a lone atom with the sum rule: all force constants vanish
    e = max(np.abs(ev1 - want).max() / sc, np.abs(ev1p - want).max() / sc)
    if not e < 1e-9:
        return Out(ok=False, info={"err": e}, msg="eigenvalues do not scale by s/t: rel err %.3e for s=%.3e t=%.3e" % (e, s, t))
    # mass propagation: primitive, supercell and unit cell see the new masses
    prim = ph.primitive
    want_s = np.array([(m0 * t)[prim.p2p_map[i]] for i in prim.s2p_map])
    if relerr(ph.supercell.masses, want_s) > 1e-14:
        return Out(ok=False, msg="masses setter did not propagate to the supercell")
    if relerr(ph.unitcell.masses, ph.supercell.masses[ph.supercell.u2s_map]) > 1e-14:
        return Out(ok=False, msg="masses setter did not propagate to the unit cell")
    big = abs(spec["log_s"]) > 6 or abs(spec["log_t"]) > 6
    return Out(ok=True, nontrivial=abs(spec["log_s"] - spec["log_t"]) > 1e-3, info={"err": e},
               classes=[spec["model"], "extreme" if big else "moderate", "cell_by:" + spec.get("cell_by", "symbols")])


SUBCHECKS = [
    Sub("basic", run=run_basic, strategy=basic_specs, examples={"quick": 800, "thorough": 20000},
        shards={"quick": 4, "thorough": 16}, what="arbitrary fc: Hermitian, D(-q)=conj D(q), spectrum(q+G)=spectrum(q), C==Py"),
    Sub("rotation", run=run_rotation, strategy=rot_specs, examples={"quick": 600, "thorough": 20000},
        shards={"quick": 6, "thorough": 16}, budget={"quick": 90, "thorough": 1500},
        what="symmetric fc: spectrum(R^T q)=spectrum(q) for our own list of supercell point-group operations"),
    Sub("asr", run=run_asr, strategy=asr_specs, examples={"quick": 400, "thorough": 10000},
        shards={"quick": 2, "thorough": 8}, what="sum-rule fc: three zero eigenvalues at Gamma"),
    Sub("scaling", run=run_scaling, strategy=scale_specs, examples={"quick": 800, "thorough": 20000},
        shards={"quick": 4, "thorough": 16}, what="fc*s, masses*t -> eigenvalues*s/t; mass propagation"),
]
