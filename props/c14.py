"""C14 One spectrum: every access path and output option reports the same phonons."""
import itertools
import os
import shutil
import tempfile

import numpy as np
from hypothesis import strategies as st

from gen.crystals import build_crystal, crystal_with_supercell, keys
from oracles.models import springs_fc, sym_nac
from props.c02 import q_in_layout
from vlib.case import Out, Sub, rng_from

PROPERTY = "C14"
TECHNIQUE = ("property-based testing (Hypothesis): differential between access paths (q-point list, band path, stored and "
             "iterated mesh, direct dynamical-matrix object) and over the exhaustive product of output options; eigen-residual "
             "of reported quantities; write/parse round trips of yaml/hdf5 outputs")
RULE = ("Crystals with stable spring models (>= 2 species when NAC is on), NAC none|wang|gonze, OpenMP and serial builds; "
        "q-lists incl. zone-boundary and out-of-zone points presented in six array layouts; the full product with_eigenvectors "
        "x with_group_velocities x with_dynamical_matrices (8 combinations, exhaustive per case); band connection on/off; "
        "Mesh and IterMesh with and without eigenvectors; default and non-default unit factor; results handed out earlier re-read after an "
        "unrelated call of the same size. Non-trivial: n_band >= 6 and >= 2 q-points. Distinct by spec hash.")
ASSUMPTIONS = [
    "frequencies are compared as eigenvalues lambda = sign(nu)(nu/factor)^2 with 1e-10 max|lambda| (sqrt is not Lipschitz at 0)",
    "group velocities are compared on modes separated by > 1e-2 THz from their neighbours",
]


@st.composite
def path_specs(draw, tier):
    b = draw(crystal_with_supercell(max_atoms=24, max_unit=6, max_det=6, kinds=("hall", "proto", "centred", "p1")))
    b.update(key=draw(keys), nac=draw(st.sampled_from(["none", "none", "wang", "gonze"])), pmat=draw(st.sampled_from(["none", "auto"])),
             qlayout=draw(st.sampled_from(["list", "array", "column_view", "strided", "fortran", "transposed"])),
             compact=draw(st.booleans()), factor=draw(st.sampled_from(["default", "default", 1.0, 521.47083])), mesh=draw(st.lists(st.integers(1, 3), min_size=3, max_size=3)),
             qs=draw(st.lists(st.lists(st.sampled_from([0.0, 0.5, 0.25, -0.5, 1.0, 0.13, 0.37, -0.29, 1.21, 0.41]), min_size=3, max_size=3),
                              min_size=2, max_size=4)))
    return b


def _setup(spec):
    from phonopy import Phonopy

    c = build_crystal(spec["crystal"])
    if c is None:
        return None, Out(nontrivial=False, classes=["discarded_overlap"])
    try:
        kw = {} if spec.get("factor", "default") == "default" else {"factor": spec["factor"]}
        ph = Phonopy(c["cell"], supercell_matrix=np.array(spec["smat"]), primitive_matrix=None if spec["pmat"] == "none" else "auto", log_level=0, **kw)
    except Exception as e:
        return None, Out(nontrivial=False, rejected=True, classes=["ctor_rejected:" + type(e).__name__])
    rng = rng_from(spec["key"])
    fc = springs_fc(ph.supercell)
    ph.force_constants = np.array(fc[ph.primitive.p2s_map], order="C") if spec["compact"] else fc
    if spec["nac"] != "none":
        try:
            Z, eps = sym_nac(ph.primitive, rng)
        except ValueError:
            return None, Out(nontrivial=False, classes=["skipped"])
        ph.nac_params = {"born": Z, "dielectric": eps, "factor": 14.4, "method": spec["nac"]}
    return ph, None


def _lam(f, factor):
    return np.sign(f) * (f / factor) ** 2


def _clean(f, thr=1e-2):
    gap = np.full(f.shape, np.inf)
    for j in range(len(f)):
        d = np.abs(f - f[j])
        d[j] = np.inf
        gap[j] = d.min()
    return (gap > thr) & (f > 5e-2)


def run_paths(spec):
    ph, out = _setup(spec)
    if ph is None:
        return out
    rng = rng_from(spec["key"], 3)
    factor = ph.unit_conversion_factor
    prim = ph.primitive
    qs = np.array(spec["qs"], dtype=float) + rng.uniform(-1e-3, 1e-3, size=(len(spec["qs"]), 3)) * 0
    if spec["nac"] != "none":
        # keep away from Gamma (direction dependent there)
        B = np.linalg.inv(prim.cell)
        qs = np.array([q for q in qs if np.linalg.norm(B @ (q - np.rint(q))) > 5e-2])
        if len(qs) < 2:
            return Out(nontrivial=False, classes=["skipped_gamma_only"])
    if np.abs(qs[0] - qs[1]).max() < 1e-6:
        qs[1] = qs[1] + np.array([0.11, 0.07, -0.05])
    if spec["nac"] != "none":
        # one q-point a few 1e-5 ... 1e-3 1/Angstrom from the zone centre: not zero for any access path, so all of them must apply the
        # same (finite-q) correction
        qcart = rng.normal(size=3)
        qcart *= 10 ** rng.uniform(-4.5, -3.0) / np.linalg.norm(qcart)
        qs = np.vstack([qs, prim.cell @ qcart])
    nq = len(qs)
    dm = ph.dynamical_matrix
    Dref = []
    for q in qs:
        dm.run(q)
        Dref.append(dm.dynamical_matrix.copy())
    Dref = np.array(Dref)
    # natural scale of the dynamical matrix (never max|D| alone: D at the chosen q can be rounding noise)
    nat = float(np.abs(ph.force_constants).max() / prim.masses.min())
    if nat == 0:
        return Out(nontrivial=False, classes=["discarded_flat"])
    sc = max(np.abs(Dref).max(), nat)
    lam_ref = np.array([np.linalg.eigvalsh(D) for D in Dref])
    lsc = max(np.abs(lam_ref).max(), nat)
    base = {}
    for we, wg, wd in itertools.product((False, True), repeat=3):
        ph.run_qpoints(q_in_layout(qs, spec["qlayout"]), with_eigenvectors=we, with_group_velocities=wg, with_dynamical_matrices=wd)
        d = ph.get_qpoints_dict()
        tag = "with_eigenvectors=%s with_group_velocities=%s with_dynamical_matrices=%s qlayout=%s" % (we, wg, wd, spec["qlayout"])
        f = d["frequencies"]
        if f.shape != (nq, 3 * len(prim)):
            return Out(ok=False, msg="frequencies shape %s (%s)" % (f.shape, tag))
        e = np.abs(_lam(f, factor) - lam_ref).max() / lsc
        if e > 1e-9:
            return Out(ok=False, info={"err": e}, msg="run_qpoints frequencies differ from the spectrum of DynamicalMatrix.run at the same q: rel %.3e (%s)" % (e, tag))
        if wd:
            e = np.abs(d["dynamical_matrices"] - Dref).max() / sc
            if e > 1e-11:
                return Out(ok=False, info={"err": e}, msg="reported dynamical matrices differ from DynamicalMatrix.run: rel %.3e (%s)" % (e, tag))
        elif d["dynamical_matrices"] is not None:
            return Out(ok=False, msg="dynamical matrices reported although not requested")
        if we:
            for i in range(nq):
                v = d["eigenvectors"][i]
                lam = _lam(f[i], factor)
                r = np.abs(Dref[i] @ v - v * lam).max() / sc
                if r > 1e-9:
                    return Out(ok=False, info={"err": r}, msg="reported eigenvectors do not diagonalise the dynamical matrix to the reported eigenvalues: "
                               "residual %.3e at q=%s (%s)" % (r, qs[i].tolist(), tag))
                if np.abs(v.conj().T @ v - np.eye(len(v))).max() > 1e-9:
                    return Out(ok=False, msg="reported eigenvectors are not orthonormal (%s)" % tag)
        elif d["eigenvectors"] is not None:
            return Out(ok=False, msg="eigenvectors reported although not requested")
        if wg:
            gv = d["group_velocities"]
            if "gv" in base:
                for i in range(nq):
                    ok = _clean(f[i])
                    if ok.any() and np.abs(gv[i][ok] - base["gv"][i][ok]).max() > 1e-8 * max(1.0, np.abs(base["gv"][i][ok]).max()):
                        return Out(ok=False, msg="group velocities depend on the other requested outputs (%s)" % tag)
            else:
                base["gv"] = gv.copy()
    if spec["nac"] != "none":
        # the zone centre with a direction: frequencies, eigenvectors and the reported matrix belong together there too
        ndir = [0.3, -0.5, 0.8]
        ph.run_qpoints([[0, 0, 0], qs[0]], with_eigenvectors=True, with_dynamical_matrices=True, nac_q_direction=ndir)
        dg = ph.get_qpoints_dict()
        dm.run([0, 0, 0], q_direction=ndir)
        Dg = dm.dynamical_matrix.copy()
        if np.abs(dg["dynamical_matrices"][0] - Dg).max() > 1e-11 * sc:
            return Out(ok=False, msg="run_qpoints(nac_q_direction) reports a zone-centre dynamical matrix different from DynamicalMatrixNAC.run(q_direction): "
                       "%.3e" % (np.abs(dg["dynamical_matrices"][0] - Dg).max() / sc))
        # documented: the direction is used at the zone centre only
        if np.abs(dg["dynamical_matrices"][1] - Dref[0]).max() > 1e-9 * sc:
            return Out(ok=False, msg="nac_q_direction changes the dynamical matrix at q=%s away from the zone centre (%s NAC): %.3e"
                       % (qs[0].tolist(), spec["nac"], np.abs(dg["dynamical_matrices"][1] - Dref[0]).max() / sc))
        # a band segment passing THROUGH the zone centre approaches it along the segment
        seg = np.array([qs[0], [0, 0, 0], -qs[0]])
        ph.run_band_structure([seg], with_eigenvectors=False)
        fband0 = np.array(ph.get_band_structure_dict()["frequencies"][0][1])
        for sgn in (1.0, -1.0):
            dm.run([0, 0, 0], q_direction=sgn * (seg[0] - seg[-1]))
            lam_dir = np.linalg.eigvalsh(dm.dynamical_matrix)
            if np.abs(np.sort(_lam(fband0, factor)) - lam_dir).max() <= 1e-9 * lsc:
                break
        else:
            return Out(ok=False, msg="band segment through the zone centre (%s NAC): frequencies at the zone centre are not those of the limit along the segment "
                       "(deviation %.3e of the eigenvalue scale)" % (spec["nac"], np.abs(np.sort(_lam(fband0, factor)) - lam_dir).max() / lsc))
        v = dg["eigenvectors"][0]
        r = np.abs(dg["dynamical_matrices"][0] @ v - v * _lam(dg["frequencies"][0], factor)).max() / sc
        if r > 1e-9:
            return Out(ok=False, msg="zone centre with nac_q_direction: reported eigenvectors do not diagonalise the reported dynamical matrix to the reported "
                       "eigenvalues: residual %.3e" % r)
    # single-q convenience API
    for i, q in enumerate(qs[:2]):
        f1 = ph.get_frequencies(q)
        f2, v2 = ph.get_frequencies_with_eigenvectors(q)
        D1 = ph.get_dynamical_matrix_at_q(q)
        if np.abs(_lam(f1, factor) - lam_ref[i]).max() / lsc > 1e-9 or np.abs(_lam(f2, factor) - lam_ref[i]).max() / lsc > 1e-9:
            return Out(ok=False, msg="get_frequencies / get_frequencies_with_eigenvectors differ from the spectrum at q=%s" % q.tolist())
        if np.abs(D1 - Dref[i]).max() / sc > 1e-11:
            return Out(ok=False, msg="get_dynamical_matrix_at_q differs from DynamicalMatrix.run")
        if np.abs(Dref[i] @ v2 - v2 * _lam(f2, factor)).max() / sc > 1e-9:
            return Out(ok=False, msg="get_frequencies_with_eigenvectors: eigenvectors do not diagonalise D")
    # band path through the same q, with and without connection
    path = [np.array([qs[0] + t * (qs[1] - qs[0]) for t in np.linspace(0, 1, 5)])]
    ph.run_qpoints(path[0], with_group_velocities=True, with_eigenvectors=True)
    qd = ph.get_qpoints_dict()
    for conn in (False, True):
        try:
            ph.run_band_structure(path, with_eigenvectors=True, with_group_velocities=True, is_band_connection=conn)
        except Exception as e:
            return Out(ok=False, msg="run_band_structure raised %r (is_band_connection=%s)" % (e, conn))
        bd = ph.get_band_structure_dict()
        fb = np.array(bd["frequencies"][0])
        gb = np.array(bd["group_velocities"][0])
        eb = np.array(bd["eigenvectors"][0])
        for i in range(len(path[0])):
            if spec["nac"] != "none" and np.linalg.norm(np.linalg.inv(prim.cell) @ (path[0][i] - np.rint(path[0][i]))) < 1e-9:
                # a path point that IS the zone centre (e.g. the midpoint between q and -q): the band path takes the limit along the path,
                # a plain q-point list does not; that case is asserted separately below (segment through the zone centre)
                continue
            fq = qd["frequencies"][i]
            order_b, order_q = np.argsort(fb[i], kind="stable"), np.argsort(fq, kind="stable")
            if np.abs(_lam(fb[i][order_b], factor) - _lam(fq[order_q], factor)).max() / lsc > 1e-9:
                return Out(ok=False, msg="band-structure frequencies (is_band_connection=%s) are not a re-ordering of the q-point frequencies at q=%s"
                           % (conn, path[0][i].tolist()))
            ok = _clean(fq[order_q])
            if ok.any():
                g1, g2 = gb[i][order_b][ok], qd["group_velocities"][i][order_q][ok]
                if np.abs(g1 - g2).max() > 1e-7 * max(1.0, np.abs(g2).max()):
                    return Out(ok=False, msg="band-structure group velocities (is_band_connection=%s) do not belong to the same modes as the frequencies "
                               "at q=%s: max diff %.3e" % (conn, path[0][i].tolist(), np.abs(g1 - g2).max()))
            # eigenvectors must be re-ordered consistently with the frequencies
            if spec["nac"] != "none" and np.linalg.norm(np.linalg.inv(prim.cell) @ (path[0][i] - np.rint(path[0][i]))) < 5e-2:
                continue  # at the zone centre a band path applies the NAC along the path direction, DynamicalMatrix.run(q) does not
            dm.run(path[0][i])
            Dq = dm.dynamical_matrix
            r = np.abs(Dq @ eb[i] - eb[i] * _lam(fb[i], factor)).max() / max(np.abs(Dq).max(), sc)
            if r > 1e-8:
                return Out(ok=False, msg="band-structure eigenvectors (is_band_connection=%s) do not pair with the frequencies: residual %.3e" % (conn, r))
    # meshes: stored and iterated, with and without eigenvectors
    ph.run_mesh(spec["mesh"], is_mesh_symmetry=False, with_eigenvectors=True, with_group_velocities=True)
    md = ph.get_mesh_dict()
    ph.run_qpoints(md["qpoints"], with_group_velocities=True)
    qd2 = ph.get_qpoints_dict()
    if np.abs(_lam(md["frequencies"], factor) - _lam(qd2["frequencies"], factor)).max() / lsc > 1e-9:
        return Out(ok=False, msg="stored mesh frequencies differ from run_qpoints at the mesh q-points")
    for i in range(len(md["qpoints"])):
        ok = _clean(md["frequencies"][i])
        if ok.any() and np.abs(md["group_velocities"][i][ok] - qd2["group_velocities"][i][ok]).max() > 1e-7 * max(1.0, np.abs(qd2["group_velocities"][i][ok]).max()):
            return Out(ok=False, msg="mesh group velocities differ from run_qpoints group velocities")
    # results reported for the mesh must still be the mesh's phonons after an unrelated call of the same size (no shared result buffers)
    snap = {k: np.array(md[k], copy=True) for k in ("frequencies", "group_velocities", "eigenvectors", "qpoints")}
    qd2_gv = np.array(qd2["group_velocities"], copy=True)
    other_q = np.array(md["qpoints"]) + np.array([0.137, -0.211, 0.173])
    ph.run_qpoints(other_q, with_group_velocities=True, with_eigenvectors=True)
    qd3 = ph.get_qpoints_dict()
    md_again = ph.get_mesh_dict()
    for k in snap:
        for name, cur in (("the dict handed out earlier", md[k]), ("get_mesh_dict() called again", md_again[k])):
            if np.abs(np.array(cur) - snap[k]).max() > 0:
                return Out(ok=False, msg="mesh %s changed after an unrelated run_qpoints call with the same number of q-points (%s): max diff %.3e"
                           % (k, name, np.abs(np.array(cur) - snap[k]).max()))
    if np.abs(np.array(qd2["group_velocities"]) - qd2_gv).max() > 0:
        return Out(ok=False, msg="group velocities handed out by get_qpoints_dict() changed after a later run_qpoints call")
    ph.run_mesh(spec["mesh"], is_mesh_symmetry=False, with_eigenvectors=True, with_group_velocities=True)
    if np.abs(np.array(qd3["group_velocities"]) - np.array(ph.get_qpoints_dict()["group_velocities"])).max() > 0:
        return Out(ok=False, msg="q-point group velocities changed after a later run_mesh call")
    for we in (True, False):
        try:
            ph.init_mesh(spec["mesh"], is_mesh_symmetry=False, use_iter_mesh=True, with_eigenvectors=we)
            fi, ei = [], []
            for fr, ev in ph.mesh:
                fi.append(fr)
                ei.append(ev)
        except Exception as e:
            return Out(ok=False, msg="iterating the mesh (with_eigenvectors=%s) raised %r" % (we, e))
        if np.abs(_lam(np.array(fi), factor) - _lam(md["frequencies"], factor)).max() / lsc > 1e-9:
            return Out(ok=False, msg="iterated mesh frequencies differ from the stored mesh (with_eigenvectors=%s)" % we)
        if not we and any(e is not None for e in ei):
            return Out(ok=False, msg="iterated mesh returned eigenvectors although not requested")
    nb = 3 * len(prim)
    return Out(ok=True, nontrivial=nb >= 6 and nq >= 2, classes=["nac:" + spec["nac"], "qlayout:" + spec["qlayout"], "compact" if spec["compact"] else "full",
                        "factor:%s" % spec.get("factor", "default")])


# ----------------------------------------------------------------------- files

@st.composite
def file_specs(draw, tier):
    b = draw(path_specs(tier))
    b["what"] = draw(st.sampled_from(["qpoints", "band", "mesh"]))
    b["fmt"] = draw(st.sampled_from(["yaml", "hdf5"]))
    return b


def run_files(spec):
    import h5py
    import yaml

    ph, out = _setup(spec)
    if ph is None:
        return out
    qs = np.array(spec["qs"], dtype=float)
    if spec["nac"] != "none":
        B = np.linalg.inv(ph.primitive.cell)
        qs = np.array([q for q in qs if np.linalg.norm(B @ (q - np.rint(q))) > 5e-2])
        if len(qs) < 2:
            return Out(nontrivial=False, classes=["skipped_gamma_only"])
    if np.abs(qs[0] - qs[1]).max() < 1e-6:
        qs[1] = qs[1] + np.array([0.11, 0.07, -0.05])
    if spec["nac"] != "none":
        # one q-point a few 1e-5 ... 1e-3 1/Angstrom from the zone centre also goes through the file writers
        rng2 = rng_from(spec["key"], 5)
        qcart = rng2.normal(size=3)
        qcart *= 10 ** rng2.uniform(-4.5, -3.0) / np.linalg.norm(qcart)
        qs = np.vstack([qs, ph.primitive.cell @ qcart])
    cwd = os.getcwd()
    td = tempfile.mkdtemp(prefix="c14-", dir=os.environ.get("VERIF_TMP", "/var/tmp"))
    os.chdir(td)
    try:
        what, fmt = spec["what"], spec["fmt"]
        if what == "qpoints":
            ph.run_qpoints(qs, with_eigenvectors=True, with_dynamical_matrices=True, with_group_velocities=True)
            d = ph.get_qpoints_dict()
            if fmt == "yaml":
                ph.write_yaml_qpoints_phonon()
                y = yaml.safe_load(open("qpoints.yaml"))
                fy = np.array([[b["frequency"] for b in p["band"]] for p in y["phonon"]])
                qy = np.array([p["q-position"] for p in y["phonon"]])
                dy = np.array([np.array(p["dynamical_matrix"]) for p in y["phonon"]])
                dy = dy[:, :, 0::2] + 1j * dy[:, :, 1::2]
                ev = np.array([[[[c[0] + 1j * c[1] for c in atom] for atom in b["eigenvector"]] for b in p["band"]] for p in y["phonon"]])
                ev = ev.reshape(len(qs), ev.shape[1], -1).transpose(0, 2, 1)
                gy = np.array([[b["group_velocity"] for b in p["band"]] for p in y["phonon"]])
                checks = [("frequencies", fy, d["frequencies"], 5.1e-11), ("q-positions", qy, qs, 5.1e-8), ("dynamical matrices", dy, d["dynamical_matrices"], 5.1e-11),
                          ("eigenvectors", ev, d["eigenvectors"], 5.1e-15), ("group velocities", gy, d["group_velocities"], 5.1e-8)]
            else:
                ph.write_hdf5_qpoints_phonon()
                with h5py.File("qpoints.hdf5", "r") as h:
                    checks = [("frequencies", h["frequency"][:], d["frequencies"], 0), ("eigenvectors", h["eigenvector"][:], d["eigenvectors"], 0),
                              ("dynamical matrices", h["dynamical_matrix"][:], d["dynamical_matrices"], 0),
                              ("group velocities", h["group_velocity"][:], d["group_velocities"], 0), ("q-positions", h["qpoint"][:], qs, 0)]
        elif what == "band":
            path = [np.array([qs[0] + t * (qs[1] - qs[0]) for t in np.linspace(0, 1, 4)])]
            ph.run_band_structure(path, with_eigenvectors=True, with_group_velocities=True)
            bd = ph.get_band_structure_dict()
            if fmt == "yaml":
                ph.write_yaml_band_structure()
                y = yaml.safe_load(open("band.yaml"))
                fy = np.array([[b["frequency"] for b in p["band"]] for p in y["phonon"]])
                gy = np.array([[b["group_velocity"] for b in p["band"]] for p in y["phonon"]])
                ev = np.array([[[[c[0] + 1j * c[1] for c in atom] for atom in b["eigenvector"]] for b in p["band"]] for p in y["phonon"]])
                ev = ev.reshape(len(path[0]), ev.shape[1], -1).transpose(0, 2, 1)
                checks = [("frequencies", fy, bd["frequencies"][0], 5.1e-11), ("group velocities", gy, bd["group_velocities"][0], 5.1e-8),
                          ("eigenvectors", ev, bd["eigenvectors"][0], 5.1e-15)]
            else:
                ph.write_hdf5_band_structure()
                with h5py.File("band.hdf5", "r") as h:
                    checks = [("frequencies", h["frequency"][:][0], bd["frequencies"][0], 0), ("eigenvectors", h["eigenvector"][:][0], bd["eigenvectors"][0], 0),
                              ("group velocities", h["group_velocity"][:][0], bd["group_velocities"][0], 0)]
        else:
            ph.run_mesh(spec["mesh"], with_eigenvectors=True, with_group_velocities=True, is_mesh_symmetry=False)
            md = ph.get_mesh_dict()
            if fmt == "yaml":
                ph.write_yaml_mesh()
                y = yaml.safe_load(open("mesh.yaml"))
                fy = np.array([[b["frequency"] for b in p["band"]] for p in y["phonon"]])
                wy = np.array([p["weight"] for p in y["phonon"]])
                qy = np.array([p["q-position"] for p in y["phonon"]])
                gy = np.array([[b["group_velocity"] for b in p["band"]] for p in y["phonon"]])
                ev = np.array([[[[c[0] + 1j * c[1] for c in atom] for atom in b["eigenvector"]] for b in p["band"]] for p in y["phonon"]])
                ev = ev.reshape(len(fy), ev.shape[1], -1).transpose(0, 2, 1)
                checks = [("frequencies", fy, md["frequencies"], 5.1e-11), ("weights", wy, md["weights"], 0), ("q-positions", qy, md["qpoints"], 5.1e-8),
                          ("eigenvectors", ev, md["eigenvectors"], 5.1e-15), ("group velocities", gy, md["group_velocities"], 5.1e-8)]
            else:
                ph.write_hdf5_mesh()
                with h5py.File("mesh.hdf5", "r") as h:
                    checks = [("frequencies", h["frequency"][:], md["frequencies"], 0), ("weights", h["weight"][:], md["weights"], 0),
                              ("q-positions", h["qpoint"][:], md["qpoints"], 0), ("eigenvectors", h["eigenvector"][:], md["eigenvectors"], 0),
                              ("group velocities", h["group_velocity"][:], md["group_velocities"], 0)]
        for name, got, want, tol in checks:
            got, want = np.asarray(got), np.asarray(want)
            if got.shape != want.shape:
                return Out(ok=False, msg="%s %s: %s has shape %s in the file, %s in memory" % (what, fmt, name, got.shape, want.shape))
            e = np.abs(got - want).max() if got.size else 0.0
            # absolute: half a unit of the last printed digit (0 for hdf5); complex numbers print two such fields
            lim = tol * (np.sqrt(2) if np.iscomplexobj(want) else 1.0)
            if e > lim:
                return Out(ok=False, msg="%s %s: %s in the file differ from the in-memory values by %.3e (allowed %.1e)" % (what, fmt, name, e, lim))
    finally:
        os.chdir(cwd)
        shutil.rmtree(td, ignore_errors=True)
    return Out(ok=True, nontrivial=True, classes=[spec["what"] + ":" + spec["fmt"], "nac:" + spec["nac"]])


SUBCHECKS = [
    Sub("paths", run=run_paths, strategy=path_specs, examples={"quick": 250, "thorough": 8000}, shards={"quick": 8, "thorough": 16},
        builds=["omp", "serial"], budget={"quick": 120, "thorough": 2400},
        what="same q: q-list (8 option combinations), single-q API, band path (+connection), stored/iterated mesh, direct object agree; eigen-residuals"),
    Sub("files", run=run_files, strategy=file_specs, examples={"quick": 200, "thorough": 6000}, shards={"quick": 6, "thorough": 16},
        builds=["omp", "serial"], budget={"quick": 120, "thorough": 2400},
        what="qpoints/band/mesh yaml and hdf5 files parse back to the in-memory arrays (printed precision / exact)"),
]
