"""C07 Force-constant symmetrisers are projections; compact and full layouts agree."""
import numpy as np
from hypothesis import strategies as st

from gen.crystals import build_crystal, crystal_with_supercell, keys
from oracles.models import dense_fc, group_average_fc, own_ops, perms_for_ops
from vlib.case import Out, Sub, relerr, rng_from

PROPERTY = "C07"
TECHNIQUE = ("property-based testing (Hypothesis): projection laws (fixed points, invariance of outputs, idempotence) and "
             "differential compact-vs-full against our own expansion of the compact array")
RULE = ("Crystals/supercells as in C01 with even and odd multiplicities (even ones carry self-inverse translations), all "
        "primitive-matrix choices. Arrays: symmetric dense models (fixed points), arbitrary random periodic arrays, "
        "arbitrary non-periodic arrays (full routine), levels 1..3, module functions and Phonopy methods. Non-trivial: "
        "array not already symmetric, natom_p>=1, and (even multiplicity present or non-diagonal S or centring P). "
        "Distinct by spec hash.")
ASSUMPTIONS = ["the compact array is expanded with OUR OWN pure-translation permutations (spglib identity-rotation operations)",
               "space-group invariance of outputs is checked with our own group action"]


def _pmat(pm, c):
    if pm == "none":
        return None
    if pm == "centring":
        return c["centring"] if c["centring"] else "auto"
    return pm


def _build(spec):
    from phonopy import Phonopy

    c = build_crystal(spec["crystal"])
    if c is None:
        return None, Out(nontrivial=False, classes=["discarded_overlap"])
    try:
        import warnings

        kw = {}
        if spec.get("fc_decimals") is not None:  # deprecated-but-supported constructor argument (rounds force constants when they are PRODUCED)
            kw["force_constants_decimals"] = spec["fc_decimals"]
        with warnings.catch_warnings():
            warnings.simplefilter("ignore")
            ph = Phonopy(c["cell"], supercell_matrix=np.array(spec["smat"]), primitive_matrix=_pmat(spec["pmat"], c), log_level=0, **kw)
    except Exception as e:
        return None, Out(nontrivial=False, rejected=True, classes=["ctor_rejected:" + type(e).__name__])
    return ph, None


def own_translation_perms(scell, prim_lattice):
    """Permutations of supercell atoms by the primitive-lattice translations (own computation)."""
    rots, trans = own_ops(scell)
    sel = [k for k in range(len(rots)) if np.array_equal(rots[k], np.eye(3, dtype=int))]
    P = perms_for_ops(scell.scaled_positions, scell.cell, rots[sel], trans[sel])
    # keep only translations that belong to the primitive lattice used by phonopy (a crystal may have more)
    inv = np.linalg.inv(prim_lattice)
    keep = []
    for k, t in zip(range(len(sel)), trans[sel]):
        v = (t @ scell.cell) @ inv
        if np.abs(v - np.rint(v)).max() < 1e-5:
            keep.append(k)
    return P[keep]


def expand(comp, p2s, tperms, n):
    full = np.zeros((n, n, 3, 3))
    filled = np.zeros(n, dtype=bool)
    for ip, a in enumerate(p2s):
        for p in tperms:
            full[p[a]][p] = comp[ip]
            filled[p[a]] = True
    if not filled.all():
        raise ValueError("own translations do not cover all atoms")
    return full


def periodic_random(rng, p2s, tperms, n):
    comp = rng.normal(size=(len(p2s), n, 3, 3))
    return expand(comp, p2s, tperms, n), comp


@st.composite
def base(draw, tier, max_atoms=32):
    b = draw(crystal_with_supercell(max_atoms=max_atoms if tier == "quick" else 48, max_unit=6, max_det=8))
    b.update(key=draw(keys), pmat=draw(st.sampled_from(["none", "auto", "centring"])), level=draw(st.integers(1, 3)),
             fc_decimals=draw(st.sampled_from([None, None, None, 8, 5])),
             history=draw(st.sampled_from(["none", "none", "cutoff", "inplace_write"])), byteswapped=draw(st.sampled_from([False, False, True])))
    return b


def partial(F, kind):
    """Arrays that already obey SOME of the invariances (a symmetriser must still impose the others)."""
    if kind == "drift_free":  # zero row and column sums, not permutation symmetric
        F = F - F.mean(axis=1, keepdims=True)
        F = F - F.mean(axis=0, keepdims=True)
        return F
    if kind == "perm_only":  # permutation symmetric, with drift
        return (F + F.transpose(1, 0, 3, 2)) / 2
    if kind == "sparse":  # a few non-zero blocks
        G = np.zeros_like(F)
        n = F.shape[0]
        G[0, n - 1] = F[0, n - 1]
        G[n // 2, 0] = F[n // 2, 0]
        return G
    return F


def _mult_class(ph):
    N = len(ph.supercell) // len(ph.primitive)
    return "N_even" if N % 2 == 0 else "N_odd"


def run_full(spec):
    from phonopy.harmonic.force_constants import symmetrize_force_constants

    ph, out = _build(spec)
    if ph is None:
        return out
    rng = rng_from(spec["key"])
    scell = ph.supercell
    n = len(scell)
    level = spec["level"]
    fcs, _ = dense_fc(scell, rng)
    sc = np.abs(fcs).max()
    f = fcs.copy()
    symmetrize_force_constants(f, level=level)
    e = np.abs(f - fcs).max() / sc
    if e > 1e-12:
        return Out(ok=False, msg="symmetrize_force_constants(level=%d) changes already-symmetric force constants: %.3e" % (level, e))
    ph.force_constants = fcs.copy()
    ph.symmetrize_force_constants(level=level, show_drift=False)
    if np.abs(ph.force_constants - fcs).max() / sc > 1e-12:
        return Out(ok=False, msg="Phonopy.symmetrize_force_constants changes already-symmetric force constants")
    # the API route on arbitrary input: the result obeys the invariances whatever constructor options the object carries
    fr = rng.normal(size=(n, n, 3, 3))
    ph.force_constants = fr.copy()
    ph.symmetrize_force_constants(level=level, show_drift=False)
    fa = ph.force_constants
    s0 = np.abs(fa).max()
    viol = max(np.abs(fa.sum(axis=1)).max(), np.abs(fa.sum(axis=0)).max(), np.abs(fa - fa.transpose(1, 0, 3, 2)).max()) / s0
    if viol > 1e-11:
        return Out(ok=False, msg="Phonopy.symmetrize_force_constants(level=%d) output violates sum rules / permutation symmetry: %.3e "
                                 "(force_constants_decimals=%r)" % (level, viol, spec.get("fc_decimals")))
    # history on one object: symmetrised, then edited in place (cut-off radius, or a write through the array the getter hands out),
    # then symmetrised again - the second call has to act on the edited values
    hist = spec.get("history", "none")
    if hist != "none":
        if hist == "cutoff":
            ph.set_force_constants_zero_with_radius(0.45 * float(np.linalg.norm(scell.cell, axis=1).min()))
        else:
            ph.force_constants[0, 0] += np.eye(3) * s0
            ph.force_constants[0, n - 1] -= 0.5 * s0
        edited = np.array(ph.force_constants, copy=True)
        v0 = max(np.abs(edited.sum(axis=1)).max(), np.abs(edited - edited.transpose(1, 0, 3, 2)).max()) / s0
        ph.symmetrize_force_constants(level=level, show_drift=False)
        fa = ph.force_constants
        viol = max(np.abs(fa.sum(axis=1)).max(), np.abs(fa.sum(axis=0)).max(), np.abs(fa - fa.transpose(1, 0, 3, 2)).max()) / s0
        if viol > 1e-11:
            return Out(ok=False, msg="symmetrise, edit in place (%s), symmetrise again: the result violates sum rules / permutation symmetry by %.3e "
                                     "(the edited array violated them by %.3e)" % (hist, viol, v0))
    # the same numbers in a float64 array of the other byte order (e.g. read from a big-endian hdf5 data set)
    if spec.get("byteswapped"):
        fr = rng.normal(size=(n, n, 3, 3))
        ph.force_constants = fr.astype(fr.dtype.newbyteorder())
        ph.symmetrize_force_constants(level=level, show_drift=False)
        fa = np.array(ph.force_constants, dtype="double")
        ref = fr.copy()
        symmetrize_force_constants(ref, level=level)
        if not np.isfinite(fa).all() or np.abs(fa - ref).max() > 1e-11 * np.abs(ref).max():
            return Out(ok=False, msg="force constants handed over in non-native byte order: symmetrised result differs from that of the same numbers "
                                     "in native order by %.3e" % (float(np.abs(fa - ref).max()) if np.isfinite(fa).all() else float("nan")))
    # arbitrary (non-periodic) input, also input that already obeys only part of the invariances
    worst = 0.0
    for kind in ("random", "drift_free", "perm_only", "sparse"):
        fr = partial(rng.normal(size=(n, n, 3, 3)) * spec.get("scale", 1.0), kind)
        f = fr.copy()
        symmetrize_force_constants(f, level=level)
        s0 = max(np.abs(f).max(), np.abs(fr).max())
        row = np.abs(f.sum(axis=1)).max() / s0
        col = np.abs(f.sum(axis=0)).max() / s0
        perm = np.abs(f - f.transpose(1, 0, 3, 2)).max() / s0
        if max(row, col, perm) > 1e-11:
            return Out(ok=False, msg="output of symmetrize_force_constants(level=%d) on %s input violates invariances: row sum %.2e, column sum %.2e, "
                                     "permutation %.2e" % (level, kind, row, col, perm))
        g = f.copy()
        symmetrize_force_constants(g, level=level)
        idem = np.abs(g - f).max() / s0
        if idem > 1e-11:
            return Out(ok=False, msg="symmetrize_force_constants(level=%d) is not idempotent on %s input: %.3e" % (level, kind, idem))
        worst = max(worst, row, col, perm, idem)
    row = col = perm = idem = worst
    return Out(ok=True, nontrivial=n >= 2, classes=["level:%d" % level, _mult_class(ph), "fc_decimals:%s" % spec.get("fc_decimals"), "history:" + hist,
                                                   "byteswapped" if spec.get("byteswapped") else "native"],
               info={"err": max(e, row, col, perm, idem)})


def run_space_group(spec):
    ph, out = _build(spec)
    if ph is None:
        return out
    rng = rng_from(spec["key"])
    scell = ph.supercell
    n = len(scell)
    L = scell.cell
    rots, trans = own_ops(scell)
    try:
        P = perms_for_ops(scell.scaled_positions, L, rots, trans)
    except ValueError:
        return Out(nontrivial=False, classes=["skipped"])
    fcs, _ = dense_fc(scell, rng)
    sc = np.abs(fcs).max()
    ph.force_constants = fcs.copy()
    ph.symmetrize_force_constants_by_space_group(show_drift=False)
    e1 = np.abs(ph.force_constants - fcs).max() / sc
    if e1 > 1e-11:
        return Out(ok=False, msg="symmetrize_force_constants_by_space_group changes already-invariant force constants: %.3e (%d ops)" % (e1, len(rots)))
    fr = rng.normal(size=(n, n, 3, 3))
    ph.force_constants = fr.copy()
    ph.symmetrize_force_constants_by_space_group(show_drift=False)
    pj = ph.force_constants.copy()
    own = group_average_fc(fr, L, rots, P)
    e2 = np.abs(pj - own).max()
    if e2 > 1e-10:
        return Out(ok=False, msg="space-group symmetrised force constants differ from our own group average: %.3e (%d ops)" % (e2, len(rots)))
    inv = np.abs(group_average_fc(pj, L, rots, P) - pj).max()
    if inv > 1e-10:
        return Out(ok=False, msg="output of the space-group symmetriser is not invariant under the group: %.3e" % inv)
    ph.symmetrize_force_constants_by_space_group(show_drift=False)
    e3 = np.abs(ph.force_constants - pj).max()
    if e3 > 1e-11:
        return Out(ok=False, msg="space-group symmetriser not idempotent: %.3e" % e3)
    nontrans = len(rots) // max(1, len(scell) // len(ph.primitive))
    lat_sym = bool(np.allclose(L, L.T, atol=1e-8))
    return Out(ok=True, nontrivial=nontrans >= 2, classes=["nops:%d" % min(nontrans, 48), "Lsym" if lat_sym else "Lnonsym"],
               info={"err": max(e1, e2, e3)})


def run_compact(spec):
    import phonopy._phonopy as phonoc
    from phonopy.harmonic.force_constants import (compact_fc_to_full_fc, full_fc_to_compact_fc, get_nsym_list_and_s2pp,
                                                  symmetrize_compact_force_constants, symmetrize_force_constants)

    ph, out = _build(spec)
    if ph is None:
        return out
    prim, scell = ph.primitive, ph.supercell
    if spec.get("reorder") and len(prim) >= 2:
        # a primitive cell whose atoms were put into a requested order (p2s_map not ascending)
        from phonopy.structure.cells import Primitive

        order = rng_from(spec["key"], 17).permutation(len(prim))
        prim = Primitive(scell, prim.primitive_matrix, positions_to_reorder=prim.scaled_positions[order])
        spec = dict(spec, via_api=False)
    n = len(scell)
    p2s = np.array(prim.p2s_map)
    rng = rng_from(spec["key"])
    try:
        tperms = own_translation_perms(scell, prim.cell)
    except ValueError:
        return Out(nontrivial=False, classes=["skipped"])
    if len(tperms) != n // len(prim):
        return Out(ok=False, msg="own count of primitive translations %d != N %d" % (len(tperms), n // len(prim)))
    if spec["array"] == "symmetric":
        full, _ = dense_fc(scell, rng)
        comp = np.array(full[p2s], order="C")
    else:
        full, comp = periodic_random(rng, p2s, tperms, n)
        if spec["array"] in ("drift_free", "perm_only"):
            full = partial(full, spec["array"])
            comp = full[p2s]
        comp = np.array(comp, order="C")
    sc = np.abs(full).max()
    classes = [spec["array"], "level:%d" % spec["level"], _mult_class(ph)] + (["reordered_primitive"] if spec.get("reorder") and len(prim) >= 2 else [])
    # P5: expansion / compression
    e = np.abs(compact_fc_to_full_fc(prim, comp) - full).max() / sc
    if e > 1e-12:
        return Out(ok=False, classes=classes, msg="compact_fc_to_full_fc differs from our own expansion by translations: %.3e" % e)
    from vlib.case import present

    comp_from_full = full_fc_to_compact_fc(prim, present(full, spec.get("full_layout", "array")))
    e = np.abs(comp_from_full - comp).max() / sc
    if e > 1e-14:
        return Out(ok=False, classes=classes, msg="full_fc_to_compact_fc is not the row selection p2s_map: %.3e" % e)
    # the compact array it returns is a valid input of the compact routines, whatever the memory layout of the full array was
    cc = comp_from_full
    symmetrize_compact_force_constants(cc, prim, level=spec["level"])
    cref = np.array(comp, copy=True, order="C")
    symmetrize_compact_force_constants(cref, prim, level=spec["level"])
    e = np.abs(np.asarray(cc) - cref).max() / sc
    if e > 1e-12:
        return Out(ok=False, classes=classes, msg="compact symmetriser on the output of full_fc_to_compact_fc(%s full array) differs from the same "
                                                   "on a fresh compact array: %.3e" % (spec.get("full_layout", "array"), e))
    # transpose kernel (behind show_drift_force_constants)
    s2pp, nsym = get_nsym_list_and_s2pp(prim.s2p_map, prim.p2p_map, prim.atomic_permutations)
    c = comp.copy()
    phonoc.transpose_compact_fc(c, prim.atomic_permutations, s2pp, prim.p2s_map, nsym)
    ref = np.array(full.transpose(1, 0, 3, 2)[p2s])
    e = np.abs(c - ref).max() / sc
    if e > 1e-12:
        return Out(ok=False, classes=classes, info={"err": e},
                   msg="transpose_compact_fc differs from transposition of the expanded array: %.3e (N=%d)" % (e, n // len(prim)))
    # P4: compact routine == compress(full routine)
    level = spec["level"]
    f = full.copy()
    symmetrize_force_constants(f, level=level)
    c = comp.copy()
    if spec["via_api"]:
        ph.force_constants = c
        ph.symmetrize_force_constants(level=level, show_drift=False)
        c = ph.force_constants
    else:
        symmetrize_compact_force_constants(c, prim, level=level)
    e4 = np.abs(c - f[p2s]).max() / sc
    if e4 > 1e-11:
        return Out(ok=False, classes=classes, info={"err": e4},
                   msg="compact symmetriser (level %d) != full symmetriser on the expanded array: %.3e (N=%d)" % (level, e4, n // len(prim)))
    # output obeys invariances, judged on OUR expansion
    fx = expand(c, p2s, tperms, n)
    s0 = max(np.abs(fx).max(), 1e-300)
    viol = max(np.abs(fx.sum(axis=1)).max(), np.abs(fx.sum(axis=0)).max(), np.abs(fx - fx.transpose(1, 0, 3, 2)).max()) / s0
    if viol > 1e-11:
        return Out(ok=False, classes=classes, msg="compact symmetriser output violates sum rules / permutation symmetry on expansion: %.3e" % viol)
    c2 = np.array(c, copy=True, order="C")
    symmetrize_compact_force_constants(c2, prim, level=level)
    e5 = np.abs(c2 - c).max() / s0
    if e5 > 1e-11:
        return Out(ok=False, classes=classes, msg="compact symmetriser not idempotent: %.3e" % e5)
    if spec["array"] == "symmetric" and np.abs(c - comp).max() / sc > 1e-12:
        return Out(ok=False, classes=classes, msg="compact symmetriser changes already-symmetric force constants")
    S = np.array(spec["smat"])
    nontriv = spec["array"] != "symmetric" and ((n // len(prim)) % 2 == 0 or bool(np.any(S - np.diag(np.diag(S)))) or len(prim) < len(ph.unitcell))
    return Out(ok=True, nontrivial=nontriv, classes=classes, info={"err": max(e4, viol, e5)})


@st.composite
def compact_specs(draw, tier):
    b = draw(base(tier))
    b["array"] = draw(st.sampled_from(["periodic", "periodic", "symmetric", "drift_free", "perm_only"]))
    b["via_api"] = draw(st.booleans())
    b["reorder"] = draw(st.sampled_from([False, False, True]))
    b["full_layout"] = draw(st.sampled_from(["array", "array", "fortran", "transposed"]))
    return b


SUBCHECKS = [
    Sub("full", run=run_full, strategy=base, examples={"quick": 600, "thorough": 20000}, shards={"quick": 4, "thorough": 16},
        what="full-layout symmetriser: fixed points, outputs obey sum rules and permutation symmetry, idempotent"),
    Sub("space_group", run=run_space_group, strategy=base, examples={"quick": 500, "thorough": 15000},
        shards={"quick": 6, "thorough": 16}, budget={"quick": 100, "thorough": 1800},
        what="Phonopy.symmetrize_force_constants_by_space_group == own group average; fixed points; idempotent"),
    Sub("compact", run=run_compact, strategy=compact_specs, examples={"quick": 800, "thorough": 25000},
        shards={"quick": 6, "thorough": 16}, budget={"quick": 100, "thorough": 1800},
        what="compact routines == full routines on our own expansion; transpose kernel; compact<->full round trip"),
]
