"""C09 Symmetry-reduced mesh sampling equals full mesh sampling."""
import itertools

import numpy as np
from hypothesis import strategies as st

from gen.crystals import build_crystal, crystal_specs, keys
from oracles.models import own_ops, springs_fc
from vlib.case import Out, Sub, rng_from

PROPERTY = "C09"
TECHNIQUE = ("property-based testing (Hypothesis): documented grid model + image relation under our own point group + "
             "metamorphic equality of weighted sums with mesh symmetry on/off")
RULE = ("Crystals from the Hall database / prototypes / centred motifs with cyclically relabelled axes (non-standard "
        "settings), in their 'auto' or given primitive cells; mesh numbers 1..6 per axis (respecting and violating lattice "
        "equivalences) or a length; shift None | half | integer-equivalent | general; gamma-centre on/off; time reversal "
        "on/off; mesh symmetry on/off; BZ fitting on/off. Non-trivial: reduction happens (n_ir < prod N) or the lattice is "
        "non-orthogonal or the shift is non-zero. Distinct by spec hash.")
ASSUMPTIONS = [
    "observable equality (sub-check observables) is asserted for supercells S = n*I, which keep the primitive point group",
    "the point group used by the image oracle is our own (spglib raw search on the primitive cell), closed under inverse",
]

SHIFT_VALUES = [0.0, 0.5, -0.5, 1.0, 0.25, 0.1, 0.37]


@st.composite
def grid_specs(draw, tier):
    cs = draw(crystal_specs(max_unit=8, kinds=("hall", "hall", "proto", "centred"), masses=False, rot=True, axperm=True))
    mesh = draw(st.lists(st.integers(1, 6), min_size=3, max_size=3))
    mode = draw(st.sampled_from(["any", "iso", "iso"]))
    if mode == "iso":
        mesh = [mesh[0]] * 3
    shift_kind = draw(st.sampled_from(["none", "half", "half", "integer", "general"]))
    if shift_kind == "none":
        shift = None
    elif shift_kind == "half":
        shift = draw(st.lists(st.sampled_from([0.0, 0.5, -0.5]), min_size=3, max_size=3))
    elif shift_kind == "integer":
        shift = draw(st.lists(st.sampled_from([0.0, 1.0, -1.0, 0.5, 1.5]), min_size=3, max_size=3))
    else:
        shift = draw(st.lists(st.sampled_from([0.0, 0.25, 0.1, 0.37, 0.5]), min_size=3, max_size=3).filter(
            lambda v: any(abs(2 * x - round(2 * x)) > 0.01 for x in v)))
    return {"crystal": cs, "pmat": draw(st.sampled_from(["auto", "none"])), "mesh": mesh, "shift": shift, "shift_kind": shift_kind,
            "gc": draw(st.booleans()), "tr": draw(st.booleans()), "ms": draw(st.sampled_from([True, True, False])),
            "fit": draw(st.booleans())}


def _phonopy(spec, smat=None, **kw):
    from phonopy import Phonopy

    c = build_crystal(spec["crystal"])
    if c is None:
        return None, Out(nontrivial=False, classes=["discarded_overlap"])
    try:
        ph = Phonopy(c["cell"], supercell_matrix=np.eye(3, dtype=int) if smat is None else smat,
                     primitive_matrix=None if spec["pmat"] == "none" else "auto", log_level=0, **kw)
    except Exception as e:
        return None, Out(nontrivial=False, rejected=True, classes=["ctor_rejected:" + type(e).__name__])
    return ph, None


def model_offset(N, shift, gc):
    """Documented grid: q = (n + o + s)/N, o = 1/2 on even axes for Monkhorst-Pack, 0 for Gamma-centred."""
    N = np.array(N)
    o = np.zeros(3) if gc else (N % 2 == 0) * 0.5
    s = np.zeros(3) if shift is None else np.array(shift, dtype=float)
    return o + s


def run_grid(spec):
    from phonopy.structure.grid_points import GridPoints

    ph, out = _phonopy(spec)
    if ph is None:
        return out
    prim = ph.primitive
    rots = ph.primitive_symmetry.pointgroup_operations
    own = np.unique(own_ops(prim)[0], axis=0)
    if len(own) != len(rots):
        return Out(ok=False, msg="point group of the primitive cell: phonopy %d operations, own search %d" % (len(rots), len(own)))
    N = np.array(spec["mesh"])
    shift = spec["shift"]
    try:
        gp = GridPoints(N, np.linalg.inv(prim.cell), q_mesh_shift=shift, is_gamma_center=spec["gc"], is_time_reversal=spec["tr"],
                        rotations=rots, is_mesh_symmetry=spec["ms"], fit_in_BZ=spec["fit"])
    except Exception as e:
        return Out(ok=False, msg="GridPoints raised %r" % (e,))
    ga = np.array(gp.grid_address)
    mp_ = np.array(gp.grid_mapping_table)
    w = np.array(gp.weights)
    qir = np.array(gp.qpoints)
    irg = np.array(gp.ir_grid_points)
    ntot = int(np.prod(N))
    errs = []
    if len(ga) != ntot or len({tuple(x) for x in (ga % N).tolist()}) != ntot:
        errs.append("grid_address does not enumerate the %d grid cells once each" % ntot)
    if int(w.sum()) != ntot:
        errs.append("weights sum to %d, grid has %d points" % (int(w.sum()), ntot))
    off = model_offset(N, shift, spec["gc"])
    if spec["shift_kind"] != "general":
        off = off - np.floor(off + 1e-9)  # zero/half offsets: grid addresses label the cells (n + 0 or 1/2)/N
    qall = (ga + off) / N
    # reported irreducible q-points must be the model q of their grid points (mod 1)
    if len(qir) != len(irg) or len(w) != len(irg):
        errs.append("qpoints/weights/ir_grid_points lengths differ")
    else:
        d = qir - qall[irg]
        if np.abs(d - np.rint(d)).max() > 1e-9:
            errs.append("reported q-points are not on the documented grid (n + o + s)/N: max deviation %.3g"
                        % np.abs(d - np.rint(d)).max())
        cnt = np.bincount(mp_, minlength=ntot)[irg]
        if not np.array_equal(cnt, w):
            errs.append("weights are not the multiplicities of the mapping table")
    if not errs:
        recops = [r.T for r in own]
        if spec["tr"]:
            recops = recops + [-r for r in recops]
        recops = np.array(recops, dtype=float)
        bad = 0
        for g, r in enumerate(mp_):
            if g == r:
                continue
            img = recops @ qall[r] - qall[g]
            if not (np.abs(img - np.rint(img)).max(axis=1) < 1e-9).any():
                bad += 1
        if bad:
            errs.append("%d grid points are not images of their representative under the point group%s"
                        % (bad, " or time reversal" if spec["tr"] else ""))
    if errs:
        return Out(ok=False, msg="mesh %s shift %s gamma_centre=%s time_reversal=%s mesh_symmetry=%s: %s"
                   % (N.tolist(), shift, spec["gc"], spec["tr"], spec["ms"], "; ".join(errs)))
    L = prim.cell
    G = L @ L.T
    nonorth = np.abs(G - np.diag(np.diag(G))).max() > 1e-6
    reduced = len(w) < ntot
    nz_shift = shift is not None and any(abs(x) > 1e-9 for x in shift)
    return Out(ok=True, nontrivial=bool(reduced or nonorth or nz_shift),
               classes=["shift:" + spec["shift_kind"], "gc" if spec["gc"] else "mp", "tr" if spec["tr"] else "notr",
                        "ms" if spec["ms"] else "noms", "reduced" if reduced else "full", "nops:%d" % len(own)],
               info={"n_ir": len(w), "n_grid": ntot})


# ------------------------------------------------------------------ observables

@st.composite
def obs_specs(draw, tier):
    g = draw(grid_specs(tier))
    g["n"] = draw(st.sampled_from([1, 1, 2]))
    g["mesh_by_length"] = draw(st.sampled_from([None, None, 8.0, 12.5, 20.0]))
    g["key"] = draw(keys)
    # symmetry switched off for the whole calculation: force constants then need not have the symmetry of the atomic positions
    g["nosym"] = draw(st.sampled_from([False, False, False, True]))
    return g


def run_observables(spec):
    ph, out = _phonopy(spec, smat=np.eye(3, dtype=int) * spec["n"], **({"is_symmetry": False} if spec.get("nosym") else {}))
    if ph is None:
        return out
    if len(ph.supercell) > 64:
        return Out(nontrivial=False, classes=["too_large"])
    ph.force_constants = springs_fc(ph.supercell)
    if spec.get("nosym"):
        # direction-dependent springs: translationally invariant, index-permutation symmetric, positive, WITHOUT the point group
        from oracles.models import dense_fc
        from vlib.case import rng_from

        extra, _ = dense_fc(ph.supercell, rng_from(spec["key"], 31), asr=True, space_group="translations")
        ph.force_constants = ph.force_constants + 0.15 * np.abs(ph.force_constants).max() / max(np.abs(extra).max(), 1e-300) * extra
    mesh = spec["mesh_by_length"] if spec["mesh_by_length"] else spec["mesh"]
    res = []
    temps = np.array([0.0, 30.0, 300.0, 1500.0])
    for ms in (True, False):
        try:
            ph.run_mesh(mesh, shift=spec["shift"], is_gamma_center=spec["gc"], is_time_reversal=spec["tr"], is_mesh_symmetry=ms)
        except Exception as e:
            return Out(ok=False, msg="run_mesh raised %r" % (e,))
        d = ph.get_mesh_dict()
        w = d["weights"].astype(float)
        f = d["frequencies"]
        # acoustic modes at Gamma are numerical noise around 0; a cutoff keeps them out on both sides alike
        ph.run_thermal_properties(temperatures=temps, cutoff_frequency=1e-3 * float(np.abs(f).max()))
        tp = ph.get_thermal_properties_dict()
        from phonopy.phonon.thermal_properties import ThermalProperties

        tpy = ThermalProperties(ph.mesh, cutoff_frequency=1e-3 * float(np.abs(f).max()))
        tpy.temperatures = temps
        tpy.run(lang="py")
        _, Fpy, Spy, Cpy = tpy.thermal_properties
        # a selection of bands (compiled route): the weighted sum over a subset of modes is a weighted sum all the same
        nb = f.shape[1]
        bi = sorted({0, nb // 2, nb - 1})
        ph.run_thermal_properties(temperatures=temps, cutoff_frequency=1e-3 * float(np.abs(f).max()), band_indices=bi)
        tpb = ph.get_thermal_properties_dict()
        ph.run_thermal_properties(temperatures=temps, cutoff_frequency=1e-3 * float(np.abs(f).max()))
        fm_ = float(np.abs(f).max())
        mom = []
        for order in (0, 1, 2) if fm_ > 1e-3 else ():  # (an all-zero spectrum has no mode inside any window: nothing to average)
            ph.run_moment(order=order, freq_min=0.4 * fm_, freq_max=2.0 * fm_)  # never empty: the top mode is inside
            mom.append(float(ph.get_moment()))
        fmax = float(np.abs(f).max()) + 1e-3
        ph.run_total_dos(sigma=fmax / 25, freq_min=-0.1 * fmax, freq_max=1.15 * fmax, freq_pitch=fmax / 60)
        dos = ph.get_total_dos_dict()["total_dos"]
        res.append({"wsum": w.sum(), "m2": (w[:, None] * f ** 2).sum() / w.sum(), "m1": (w[:, None] * np.abs(f)).sum() / w.sum(),
                    "F": tp["free_energy"], "S": tp["entropy"], "Cv": tp["heat_capacity"], "dos": dos,
                    "moment0_window": mom[0] if mom else 0.0, "moment1_window": mom[1] if mom else 0.0, "moment2_window": mom[2] if mom else 0.0, "F_py": Fpy, "S_py": Spy, "Cv_py": Cpy, "F_bands": tpb["free_energy"], "S_bands": tpb["entropy"], "Cv_bands": tpb["heat_capacity"], "nq": len(w),
                    "mesh": np.array(ph.mesh.mesh_numbers)})
    a, b = res
    ntot = int(np.prod(a["mesh"]))
    if not np.array_equal(a["mesh"], b["mesh"]):
        return Out(ok=False, msg="mesh numbers differ between symmetry on/off: %s vs %s" % (a["mesh"], b["mesh"]))
    if a["wsum"] != ntot or b["wsum"] != ntot:
        return Out(ok=False, msg="weights sum %s / %s, grid has %d points" % (a["wsum"], b["wsum"], ntot))
    worst = 0.0
    for k in ("m2", "m1", "moment0_window", "moment1_window", "moment2_window", "F", "S", "Cv", "F_py", "S_py", "Cv_py", "F_bands", "S_bands", "Cv_bands", "dos"):
        x, y = np.asarray(a[k], dtype=float), np.asarray(b[k], dtype=float)
        if np.isnan(x).any() or np.isnan(y).any():
            if np.array_equal(np.isnan(x), np.isnan(y)):
                x, y = np.nan_to_num(x), np.nan_to_num(y)  # finiteness is C10's subject
        sc = max(np.abs(y).max(), 1e-6)
        e = np.abs(x - y).max() / sc
        worst = max(worst, e)
        if not e < (1e-6 if k == "dos" else 1e-8):
            return Out(ok=False, info={"err": e}, msg="%s differs between mesh symmetry on and off: rel %.3e (mesh %s shift %s gc=%s tr=%s; "
                       "%d vs %d q-points)" % (k, e, a["mesh"].tolist(), spec["shift"], spec["gc"], spec["tr"], a["nq"], b["nq"]))
    return Out(ok=True, nontrivial=a["nq"] < b["nq"], classes=["shift:" + spec["shift_kind"], "len" if spec["mesh_by_length"] else "explicit",
                                                             "n:%d" % spec["n"], "nosym" if spec.get("nosym") else "sym"], info={"err": worst})


SUBCHECKS = [
    Sub("grid", run=run_grid, strategy=grid_specs, examples={"quick": 2000, "thorough": 60000},
        shards={"quick": 8, "thorough": 16}, builds=["omp"], budget={"quick": 100, "thorough": 1800},
        what="GridPoints: documented grid model, weights = multiplicities, every grid point is an image of its representative"),
    Sub("observables", run=run_observables, strategy=obs_specs, examples={"quick": 500, "thorough": 15000},
        shards={"quick": 8, "thorough": 16}, budget={"quick": 110, "thorough": 1800},
        what="F, S, C_V (compiled and Python routes), smearing DOS, moments identical with mesh symmetry on and off"),
]
