"""C11 Densities of states are non-negative, normalised and additive; tetrahedron weights."""
from fractions import Fraction as Fr

import numpy as np
from hypothesis import strategies as st

from gen.crystals import build_crystal, crystal_specs, keys
from oracles.models import springs_fc
from vlib.case import LAYOUTS, Out, Sub, present, rng_from

PROPERTY = "C11"
TECHNIQUE = ("property-based testing (Hypothesis): tetrahedron vertex weights against the Hermite-Genocchi divided-difference "
             "identity in exact rational arithmetic; C vs Python differential on consistent fields; sum rules of DOS/PDOS")
RULE = ("'kernel': 24x4 vertex-value sets built from one tetrahedron with each vertex as centre, values on a 1/64 grid "
        "(random, clustered, exact ties), probe below / inside each interval / above; both 'I' and 'J'. 'fields': random "
        "microzone lattices and meshes, consistent random fields on the tetrahedra vertices, C vs Py, all four main "
        "diagonals. 'mesh': spring-model crystals, meshes 2..6, symmetry on/off, tetrahedron and smearing DOS, PDOS (atom, "
        "xyz, direction). Non-trivial: probe strictly inside the vertex range. Distinct by spec hash.")
ASSUMPTIONS = [
    "tetrahedron DENSITY is never integrated or compared point-wise between runs (delta spikes on degenerate tetrahedra); "
    "normalisation uses the cumulative weights, run-to-run comparisons use cumulative weights and smearing DOS",
    "C and Python implementations are compared on tie-free fields only (the Python reference divides by zero on exact ties)",
]


def divdiff(nodes, p, w):
    """Confluent divided difference of f(x) = (w-x)_+^p / p! over nodes (exact Fractions, any multiplicities)."""
    xs = sorted(nodes)
    n = len(xs)

    def fk(x, k):  # k-th derivative / k!
        if w - x <= 0 or p - k < 0:
            return Fr(0)
        num = (w - x) ** (p - k)
        den = 1
        for i in range(2, p - k + 1):
            den *= i
        kf = 1
        for i in range(2, k + 1):
            kf *= i
        return Fr((-1) ** k) * num / den / kf

    T = [[None] * n for _ in range(n)]
    for i in range(n):
        T[i][i] = fk(xs[i], 0)
    for k in range(1, n):
        for i in range(n - k):
            j = i + k
            if xs[i] == xs[j]:
                T[i][j] = fk(xs[i], k)
            else:
                T[i][j] = (T[i + 1][j] - T[i][j - 1]) / (xs[j] - xs[i])
    return T[0][n - 1]


def vertex_weight(v, i, w, kind):
    """Weight of vertex i of a tetrahedron with vertex values v at probe w: 6 g[v0..v3, v_i]."""
    v = [Fr(x) for x in v]
    return 6 * divdiff(v + [v[i]], 4 if kind == "J" else 3, Fr(w))


@st.composite
def kernel_specs(draw, tier):
    mode = draw(st.sampled_from(["random", "random", "clustered", "ties2", "ties3", "ties4"]))
    vals = draw(st.lists(st.integers(0, 640), min_size=4, max_size=4))
    if mode == "clustered":
        base = vals[0]
        vals = [base + (x % 3) for x in vals]
    elif mode == "ties2":
        vals[1] = vals[0]
    elif mode == "ties3":
        vals[1] = vals[0]
        vals[2] = vals[0]
    elif mode == "ties4":
        vals = [vals[0]] * 4
    where = draw(st.sampled_from(["below", "in0", "in1", "in2", "above", "any"]))
    return {"vals": vals, "mode": mode, "where": where, "frac": draw(st.integers(1, 7)), "wany": draw(st.integers(-20, 660)),
            "kind": draw(st.sampled_from(["I", "J"])), "centre": draw(st.integers(0, 3)),
            # how the caller holds the 24 x 4 vertex values (the weight of the first vertex does not depend on the order of the other three)
            "tlayout": draw(st.sampled_from(LAYOUTS)), "rowperm": draw(st.booleans())}


def run_kernel(spec):
    from phonopy.structure.tetrahedron_method import get_tetrahedra_integration_weight

    v = [x / 64.0 for x in spec["vals"]]
    s = sorted(set(spec["vals"]))
    wh = spec["where"]
    # probe on the 1/512 grid, never equal to a vertex value
    if wh == "below":
        wi = s[0] * 8 - spec["frac"]
    elif wh == "above":
        wi = s[-1] * 8 + spec["frac"]
    elif wh == "any" or len(s) == 1:
        wi = spec["wany"] * 8 + 1
    else:
        k = min(int(wh[2]), len(s) - 2)
        lo, hi = s[k] * 8, s[k + 1] * 8
        wi = lo + max(1, (hi - lo) * spec["frac"] // 8)
        if wi >= hi:
            wi = lo + 1 if hi - lo > 1 else lo * 8 + 1
    if wi % 8 == 0:
        wi += 1
    w = wi / 512.0
    if any(abs(w - x) < 1e-12 for x in v):
        return Out(nontrivial=False, classes=["skipped"])
    kind = spec["kind"]
    c = spec["centre"]
    order = [c] + [k for k in range(4) if k != c]
    tet = np.array([[v[k] for k in order]] * 24, dtype="double")
    if spec.get("rowperm"):
        import itertools

        others = list(itertools.permutations(order[1:]))
        tet = np.array([[v[c]] + [v[k] for k in others[r % 6]] for r in range(24)], dtype="double")
    tet = present(tet, spec.get("tlayout", "array"))
    ref = float(vertex_weight([Fr(x, 64) for x in spec["vals"]], c, Fr(wi, 512), kind)) * 4
    got = get_tetrahedra_integration_weight(float(w), tet, function=kind)
    got_arr = get_tetrahedra_integration_weight(np.array([w, w]), tet, function=kind)[1]
    ties = len(s) < 4
    scale = max(1.0, abs(ref))
    classes = ["kind:" + kind, "mode:" + spec["mode"], "where:" + wh, "centre:%d" % c, "tlayout:" + spec.get("tlayout", "array"),
               "rows_permuted" if spec.get("rowperm") else "rows_identical"]
    tol = 1e-9 if not ties else 1e-6  # C treats |v_i - v_j| < THM_EPSILON ties by its own limiting rule
    if not np.isfinite(got) or abs(got - ref) > tol * scale:
        return Out(ok=False, classes=classes, msg="C tetrahedron %s weight %r != divided-difference value %r (vertex values %s/64, centre %d, probe %s/512)"
                   % (kind, got, ref, spec["vals"], c, wi))
    if abs(got_arr - got) > 1e-14 * scale:
        return Out(ok=False, msg="scalar and array kernels differ: %r vs %r" % (got, got_arr))
    if kind == "J" and not (-1e-12 <= got <= 4 * 0.25 * 4 + 1e-12):
        return Out(ok=False, msg="J weight outside [0,1]: %r" % (got / 4,))
    if kind == "I" and got < -1e-12:
        return Out(ok=False, msg="negative I weight %r" % got)
    inside = s[0] * 8 < wi < s[-1] * 8
    return Out(ok=True, nontrivial=inside, classes=classes, info={"err": abs(got - ref) / scale})


# --------------------------------------------------------------- consistent fields, C vs Py


@st.composite
def field_specs(draw, tier):
    return {"key": draw(keys), "mesh": draw(st.lists(st.integers(1, 5), min_size=3, max_size=3)),
            "lat": draw(st.sampled_from(["random", "cubic", "hex", "fcc", "needle"])), "nom": draw(st.integers(3, 9))}


def canon(T):
    return sorted(tuple(sorted(map(tuple, t))) for t in T)


def run_fields(spec):
    from phonopy.structure.tetrahedron_method import TetrahedronMethod, get_tetrahedra_relative_grid_address

    rng = rng_from(spec["key"])
    L = {"random": rng.normal(size=(3, 3)), "cubic": np.eye(3), "hex": np.array([[1, -0.5, 0], [0, np.sqrt(3) / 2, 0], [0, 0, 1.6]]),
         "fcc": np.array([[0, .5, .5], [.5, 0, .5], [.5, .5, 0]]), "needle": np.diag([1, 1, 9.0]) @ (np.eye(3) + 0.1 * rng.normal(size=(3, 3)))}[spec["lat"]]
    if abs(np.linalg.det(L)) < 0.2:
        return Out(nontrivial=False, classes=["discarded_degenerate"])
    mesh = np.array(spec["mesh"])
    a = get_tetrahedra_relative_grid_address(L / mesh, lang="C")
    b = get_tetrahedra_relative_grid_address(L / mesh, lang="Py")
    if canon(a) != canon(b):
        return Out(ok=False, msg="C and Py choose different tetrahedra (as sets) for microzone lattice %s" % (L / mesh).tolist())
    for t in a:
        if sum(1 for vtx in t if not np.any(vtx)) != 1:
            return Out(ok=False, msg="a tetrahedron does not contain the central grid point exactly once")
    vol = sum(abs(np.linalg.det((t[1:] - t[0]).astype(float))) / 6 for t in a)
    if abs(vol - 4.0) > 1e-12:
        return Out(ok=False, msg="24 tetrahedra around a grid point have total volume %r cells, expected 4" % vol)
    tmC = TetrahedronMethod(L, mesh=mesh, lang="C")
    tmP = TetrahedronMethod(L, mesh=mesh, lang="Py")
    verts = tmC.get_unique_tetrahedra_vertices()
    vals = {tuple(int(y) for y in v): float(x) for v, x in zip(verts, rng.normal(size=len(verts)))}
    oms = np.sort(rng.normal(size=spec["nom"]))
    worst = 0.0
    res = {}
    # a caller may keep one (24, 4) work array per object and refill it for the next band: first another field, then the one asserted below
    vals_first = {k: float(x) for k, x in zip(vals, rng_from(spec["key"], 3).normal(size=len(vals)))}
    bufC, bufP = np.empty((24, 4)), np.empty((24, 4))
    for value in "IJ":
        for field in (vals_first, vals):
            bufC[...] = np.array([[field[tuple(int(y) for y in v)] for v in t] for t in tmC.tetrahedra])
            tmC.set_tetrahedra_omegas(bufC)
            tmC.run(oms, value=value)
            x = np.array(tmC.get_integration_weight())
            bufP[...] = np.array([[field[tuple(int(y) for y in v)] for v in t] for t in tmP.tetrahedra])
            tmP.set_tetrahedra_omegas(bufP)
            tmP.run(oms, value=value)
            y = np.array(tmP.get_integration_weight())
            e = np.abs(x - y).max()
            worst = max(worst, e)
            if e > 1e-10:
                return Out(ok=False, msg="C and Py tetrahedron %s weights differ on a consistent field (work array %s): %.3e"
                           % (value, "refilled in place" if field is vals else "first use", e))
        res[value] = x
    J = res["J"]
    if J.min() < -1e-12 or J.max() > 1 + 1e-12 or (np.diff(J) < -1e-12).any():
        return Out(ok=False, msg="cumulative weight not in [0,1] or not non-decreasing: %s" % J)
    if res["I"].min() < -1e-12:
        return Out(ok=False, msg="negative density weight")
    # dJ/dw = I by central differences (field is tie-free, probe generic)
    h = 1e-5
    w0 = float(oms[len(oms) // 2])
    tw = np.array([[vals[tuple(int(y) for y in v)] for v in t] for t in tmC.tetrahedra])
    tmC.set_tetrahedra_omegas(tw)
    tmC.run(np.array([w0 - h, w0 + h]), value="J")
    jj = np.array(tmC.get_integration_weight())
    tmC.run(np.array([w0]), value="I")
    ii = float(tmC.get_integration_weight()[0])
    if abs((jj[1] - jj[0]) / (2 * h) - ii) > 1e-4 * max(1.0, abs(ii)):
        return Out(ok=False, msg="dJ/dw = %r but I = %r at w = %r" % ((jj[1] - jj[0]) / (2 * h), ii, w0))
    tmC.run(np.array([max(vals.values()) + 1.0]), value="J")
    if abs(tmC.get_integration_weight()[0] - 1.0) > 1e-12:
        return Out(ok=False, msg="cumulative weight above the top of the field is %r, not 1" % tmC.get_integration_weight()[0])
    return Out(ok=True, nontrivial=True, classes=["lat:" + spec["lat"]], info={"err": worst})


# --------------------------------------------------------------- mesh level


@st.composite
def mesh_specs(draw, tier):
    return {"crystal": draw(crystal_specs(max_unit=6, kinds=("hall", "proto", "centred"), masses=True, axperm=True)),
            "mesh": draw(st.lists(st.integers(2, 6 if tier == "thorough" else 5), min_size=3, max_size=3)),
            "ms": draw(st.booleans()), "key": draw(keys), "smear": draw(st.sampled_from(["Normal", "Cauchy"])),
            "direction": draw(st.lists(st.floats(-1, 1, allow_nan=False), min_size=3, max_size=3).filter(lambda d: sum(x * x for x in d) > 1e-2)),
            "gc": draw(st.booleans()), "peek": draw(st.booleans())}


def run_mesh(spec):
    from phonopy import Phonopy
    from phonopy.phonon.tetrahedron_mesh import TetrahedronMesh

    c = build_crystal(spec["crystal"])
    if c is None:
        return Out(nontrivial=False, classes=["discarded_overlap"])
    if len(c["cell"]) > 8:
        return Out(nontrivial=False, classes=["too_large"])
    try:
        ph = Phonopy(c["cell"], supercell_matrix=np.eye(3, dtype=int), primitive_matrix="auto", log_level=0)
    except Exception as e:
        return Out(nontrivial=False, rejected=True, classes=["ctor_rejected:" + type(e).__name__])
    ph.force_constants = springs_fc(ph.supercell)
    nb = 3 * len(ph.primitive)
    mesh = spec["mesh"]
    ph.run_mesh(mesh, is_mesh_symmetry=spec["ms"], with_eigenvectors=True, is_gamma_center=spec["gc"])
    d = ph.get_mesh_dict()
    f = d["frequencies"]
    fmin, fmax = float(f.min()), float(f.max())
    if fmax - fmin < 1e-2:
        return Out(nontrivial=False, classes=["flat_spectrum"])
    span = fmax - fmin
    m = ph.mesh
    # cumulative tetrahedron weights
    for lang in ("C", "Py") if np.prod(mesh) <= 27 else ("C",):
        thm = TetrahedronMesh(ph.primitive, f, m.mesh_numbers, np.array(m.grid_address, dtype="int64"),
                              np.array(m.grid_mapping_table, dtype="int64"), m.ir_grid_points, lang=lang)
        probes = np.array([fmin - 0.3 * span, fmax + 0.3 * span, fmin + 0.37 * span, fmin + 0.71 * span])
        peek = bool(spec.get("peek"))
        if peek:
            # the object was used before: a first look at the density weights of the first grid point only, then set() for the real pass
            thm.set(value="I", frequency_points=probes, lang=lang)
            next(iter(thm))
        thm.set(value="J", frequency_points=probes, lang=lang)
        tot = np.zeros(4)
        w = d["weights"]
        for i, iw in enumerate(thm):
            tot += iw.sum(axis=1) * w[i]
        if abs(tot[0]) > 1e-10 or abs(tot[1] - nb) > 1e-9 * nb:
            return Out(ok=False, msg="cumulative tetrahedron weight (%s): %r below the spectrum, %r above (expected 0 and %d)" % (lang, tot[0], tot[1], nb))
        if not (-1e-10 <= tot[2] <= tot[3] + 1e-10 <= nb + 1e-9):
            return Out(ok=False, msg="cumulative tetrahedron weight not monotone: %s" % tot)
        # closed-form check: the cumulative count can never exceed the number of modes below the probe + ... (bounds)
    pitch = span / 300
    ph.run_total_dos(use_tetrahedron_method=True, freq_min=fmin - 0.1 * span, freq_max=fmax + 0.1 * span, freq_pitch=pitch)
    td = ph.get_total_dos_dict()
    y = td["total_dos"]
    if not np.isfinite(y).all() or y.min() < -1e-10:
        return Out(ok=False, msg="tetrahedron total DOS negative or not finite: min %r" % y.min())
    # the same grid walked downwards (freq_min > freq_max, negative pitch): every point is evaluated on its own
    ph.run_total_dos(use_tetrahedron_method=True, freq_min=fmin - 0.1 * span, freq_max=fmin - 0.1 * span + 40 * (span / 33), freq_pitch=span / 33)
    up = {k: np.array(v, copy=True) for k, v in ph.get_total_dos_dict().items()}
    ph.run_total_dos(use_tetrahedron_method=True, freq_min=float(up["frequency_points"][-1]), freq_max=float(up["frequency_points"][0]), freq_pitch=-span / 33)
    dn = ph.get_total_dos_dict()
    if len(dn["frequency_points"]) == len(up["frequency_points"]) and np.abs(dn["frequency_points"][::-1] - up["frequency_points"]).max() < 1e-9 * max(1.0, span):
        if np.abs(dn["total_dos"][::-1] - up["total_dos"]).max() > 1e-9 * max(1.0, np.abs(up["total_dos"]).max()):
            return Out(ok=False, msg="tetrahedron DOS on a descending frequency grid differs from the same points ascending: max diff %.3e"
                       % np.abs(dn["total_dos"][::-1] - up["total_dos"]).max())
    # a window given in whole numbers: Python ints and the same values as floats are the same request
    i0, i1 = int(np.floor(fmin)) - 1, int(np.ceil(fmax)) + 1
    ph.run_total_dos(use_tetrahedron_method=True, freq_min=i0, freq_max=i1, freq_pitch=1)
    yi = np.array(ph.get_total_dos_dict()["total_dos"], copy=True)
    xi = np.array(ph.get_total_dos_dict()["frequency_points"], dtype=float)
    ph.run_total_dos(use_tetrahedron_method=True, freq_min=float(i0), freq_max=float(i1), freq_pitch=1.0)
    yf = ph.get_total_dos_dict()["total_dos"]
    if len(yi) != len(yf) or np.abs(yi - yf).max() > 1e-12 * max(1.0, np.abs(yf).max()) or \
            np.abs(xi - np.asarray(ph.get_total_dos_dict()["frequency_points"], dtype=float)).max() > 0:
        return Out(ok=False, msg="tetrahedron DOS for the window (%d, %d, pitch 1) given as Python ints differs from the same window given as floats "
                   "(max diff %.3e)" % (i0, i1, np.abs(yi - yf).max() if len(yi) == len(yf) else -1))
    if spec["ms"]:
        # projected DOS is documented to need the full mesh: continue on a mesh without symmetry reduction
        ph.run_mesh(mesh, is_mesh_symmetry=False, with_eigenvectors=True, is_gamma_center=spec["gc"])
        d = ph.get_mesh_dict()
        f = d["frequencies"]
        ph.run_total_dos(use_tetrahedron_method=True, freq_min=fmin - 0.1 * span, freq_max=fmax + 0.1 * span, freq_pitch=pitch)
        y = ph.get_total_dos_dict()["total_dos"]
    ph.run_projected_dos(use_tetrahedron_method=True, freq_min=fmin - 0.1 * span, freq_max=fmax + 0.1 * span, freq_pitch=pitch)
    pd = ph.get_projected_dos_dict()["projected_dos"]
    sc = max(np.abs(y).max(), 1e-12)
    if pd.min() < -1e-9 * sc:
        return Out(ok=False, msg="negative tetrahedron PDOS %r" % pd.min())
    if np.abs(pd.sum(axis=0) - y).max() > 1e-9 * sc:
        return Out(ok=False, msg="atom-projected tetrahedron DOS does not sum to the total: %.3e" % (np.abs(pd.sum(axis=0) - y).max() / sc))
    ph.run_projected_dos(use_tetrahedron_method=True, freq_min=fmin - 0.1 * span, freq_max=fmax + 0.1 * span, freq_pitch=pitch, xyz_projection=True)
    pd3 = ph.get_projected_dos_dict()["projected_dos"]
    if np.abs(pd3.sum(axis=0) - y).max() > 1e-9 * sc or pd3.min() < -1e-9 * sc:
        return Out(ok=False, msg="xyz-projected tetrahedron DOS does not sum to the total or is negative")
    if np.abs(pd3.reshape(len(pd), 3, -1).sum(axis=1) - pd).max() > 1e-9 * sc:
        return Out(ok=False, msg="xyz components do not sum to the atom-projected DOS")
    # smearing
    sig = span / 40
    ph.run_total_dos(sigma=sig, freq_min=fmin - 12 * sig, freq_max=fmax + 12 * sig, freq_pitch=sig / 5)
    ph.total_dos  # noqa: B018
    from phonopy.phonon.dos import TotalDos

    tdos = TotalDos(ph.mesh, sigma=sig)
    tdos.set_smearing_function(spec["smear"])
    fpts_min, fpts_max = (fmin - 12 * sig, fmax + 12 * sig) if spec["smear"] == "Normal" else (fmin - 400 * sig, fmax + 400 * sig)
    tdos.set_draw_area(fpts_min, fpts_max, sig / 5)
    tdos.run()
    xs, ys = tdos.frequency_points, tdos.dos
    if ys.min() < -1e-12:
        return Out(ok=False, msg="negative smearing DOS")
    integ = np.trapezoid(ys, xs)
    # analytic: sum over modes of CDF differences over the window
    from math import atan, erf, pi, sqrt

    wq = d["weights"] / d["weights"].sum()
    a, b = xs[0], xs[-1]
    if spec["smear"] == "Normal":
        cdf = np.vectorize(lambda t: 0.5 * (1 + erf(t / (sig * sqrt(2)))))
    else:
        cdf = np.vectorize(lambda t: 0.5 + atan(t / sig) / pi)
    want = float((wq[:, None] * (cdf(b - f) - cdf(a - f))).sum())
    if abs(integ - want) > 2e-3 * nb:
        return Out(ok=False, msg="%s smearing DOS integrates to %r, analytic window content %r" % (spec["smear"], integ, want))
    # smearing PDOS: atoms, xyz, direction
    ph.run_projected_dos(sigma=sig, freq_min=fmin - 5 * sig, freq_max=fmax + 5 * sig, freq_pitch=sig)
    pa = ph.get_projected_dos_dict()["projected_dos"]
    ph.run_total_dos(sigma=sig, freq_min=fmin - 5 * sig, freq_max=fmax + 5 * sig, freq_pitch=sig)
    yt = ph.get_total_dos_dict()["total_dos"]
    scs = max(np.abs(yt).max(), 1e-12)
    if np.abs(pa.sum(axis=0) - yt).max() > 1e-9 * scs or pa.min() < -1e-12:
        return Out(ok=False, msg="smearing PDOS does not sum to the total DOS or is negative")
    # three orthonormal directions add up to the atom-projected DOS; each is non-negative
    dvec = np.array(spec["direction"], dtype=float)
    Q, _ = np.linalg.qr(np.column_stack([dvec, rng_from(spec["key"]).normal(size=(3, 2))]))
    acc = 0
    for k in range(3):
        # the API takes the direction in coordinates of the primitive basis vectors
        dred = Q[:, k] @ np.linalg.inv(ph.primitive.cell)
        ph.run_projected_dos(sigma=sig, freq_min=fmin - 5 * sig, freq_max=fmax + 5 * sig, freq_pitch=sig, direction=dred)
        pdk = ph.get_projected_dos_dict()["projected_dos"]
        if pdk.min() < -1e-9 * scs:
            return Out(ok=False, msg="direction-projected DOS is negative: %r (direction %s)" % (pdk.min(), Q[:, k].tolist()))
        acc = acc + pdk
    if np.abs(acc - pa).max() > 1e-8 * scs:
        return Out(ok=False, msg="three orthonormal direction projections do not add up to the atom-projected DOS: %.3e" % (np.abs(acc - pa).max() / scs))
    return Out(ok=True, nontrivial=True, classes=["ms" if spec["ms"] else "noms", spec["smear"], "nb:%d" % nb])


SUBCHECKS = [
    Sub("kernel", run=run_kernel, strategy=kernel_specs, examples={"quick": 20000, "thorough": 600000},
        shards={"quick": 8, "thorough": 16}, budget={"quick": 100, "thorough": 2400},
        what="C tetrahedron vertex weights I/J == 6 g[v0..v3,v_c] (exact rational divided differences), every centre position and interval, ties"),
    Sub("fields", run=run_fields, strategy=field_specs, examples={"quick": 400, "thorough": 15000},
        shards={"quick": 4, "thorough": 16}, budget={"quick": 100, "thorough": 2400},
        what="consistent fields: C == Py, weights in [0,1], monotone J, dJ/dw = I, tetrahedra tile the cell, all diagonals"),
    Sub("mesh", run=run_mesh, strategy=mesh_specs, examples={"quick": 600, "thorough": 12000},
        shards={"quick": 8, "thorough": 16}, budget={"quick": 110, "thorough": 2400},
        what="cumulative tetrahedron weights sum to 3N above the spectrum; DOS/PDOS non-negative and additive; smearing normalisation"),
]
