"""C02 Phonons equal the lattice Fourier sum of the interatomic force constants."""
import itertools

import numpy as np
from hypothesis import strategies as st

from gen.crystals import build_crystal, crystal_with_supercell, keys, qpoint_strategy
from oracles.lattice import shortest_lattice_vector
from oracles.models import IFC, fold_ifc
from vlib.case import present, Out, Sub, relerr, rng_from

PROPERTY = "C02"
TECHNIQUE = "property-based testing (Hypothesis): differential against an independent lattice Fourier sum of closed-form IFCs"
RULE = ("Hypothesis draws a crystal (Hall database / prototypes / centred motifs / P1), a supercell matrix (diagonal, HNF x "
        "unimodular, small entries), a primitive-matrix choice (centring letter, auto, explicit, none), an interaction "
        "range class (short: < half the shortest supercell lattice vector -> all q asserted; long -> commensurate q "
        "only), masses, q-points (random in [-1.5,1.5]^3, rational, zone boundary, outside first zone, commensurate), "
        "layout full|compact, dense|sparse shortest vectors, evaluation path. The model is a random index-permutation-"
        "symmetric IFC set Phi(j,j',l), folded into the supercell by us. Non-trivial: q != Gamma, >= 2 interacting "
        "neighbour shells crossing a cell face, and one of: non-diagonal S, centring P, compact, sparse svecs, "
        "zone-boundary/out-of-zone q. Distinct by hash of the full spec.")
ASSUMPTIONS = [
    "the primitive cell and index maps that phonopy built are taken as given here (C04 checks them)",
    "unit factor is checked through frequencies = sign(e) sqrt|e| * factor with eigenvalues of OUR matrix",
]
LEVEL_NOTE = "Reference = own Fourier sum over own folded IFC model; compiled and Python paths, batched solver, run_qpoints."


@st.composite
def fourier_specs(draw, tier):
    max_atoms = 40 if tier == "quick" else 72
    base = draw(crystal_with_supercell(max_atoms=max_atoms, max_unit=6, max_det=12,
                                       kinds=("hall", "proto", "centred", "p1")))
    base.update(
        key=draw(keys),
        pmat=draw(st.sampled_from(["none", "auto", "centring", "explicit", "P"])),
        regime=draw(st.sampled_from(["short", "short", "long"])),
        compact=draw(st.booleans()),
        dense_svecs=draw(st.booleans()),
        qs=draw(st.lists(qpoint_strategy(), min_size=1, max_size=4)),
        ncomm=draw(st.integers(1, 4)),
        factor=draw(st.sampled_from(["default", 1.0, 521.47083])),
        qlayout=draw(st.sampled_from(["list", "array", "column_view", "strided", "fortran", "transposed"])),
        # masses as built from the symbols, or set afterwards through the public setter (whole numbers given as Python ints,
        # an integer ndarray, a strided float view)
        set_masses=draw(st.sampled_from(["no", "no", "int_list", "int_array", "strided"])),
        fclayout=draw(st.sampled_from(["array", "array", "fortran", "strided", "list"])),
    )
    return base


def _pmat(spec, c):
    pm = spec["pmat"]
    if pm == "none":
        return None
    if pm == "centring":
        return c["centring"] if c["centring"] else "auto"
    if pm == "explicit":
        from phonopy.structure.cells import get_primitive_matrix_by_centring

        return get_primitive_matrix_by_centring(c["centring"] or "P")
    return pm


def q_in_layout(qs, layout):
    """The same q-points (n,3) presented in the array layouts a caller may legitimately use."""
    qs = np.array(qs, dtype=float).reshape(-1, 3)
    n = len(qs)
    if layout == "list":
        return qs.tolist()
    if layout == "array":
        return qs.copy()
    if layout == "column_view":  # e.g. table[:, :3] of a wider table
        t = np.full((n, 5), 7.25)
        t[:, :3] = qs
        return t[:, :3]
    if layout == "strided":  # every second row of a longer list
        t = np.full((2 * n, 3), -3.5)
        t[::2] = qs
        return t[::2]
    if layout == "fortran":
        return np.asfortranarray(qs)
    if layout == "transposed":  # components stored as rows
        comps = np.ascontiguousarray(qs.T)
        return comps.T
    raise ValueError(layout)


def run_fourier(spec):
    from phonopy import Phonopy
    from phonopy.harmonic.dynamical_matrix import run_dynamical_matrix_solver_c
    from phonopy.harmonic.dynmat_to_fc import get_commensurate_points

    c = build_crystal(spec["crystal"])
    if c is None:
        return Out(nontrivial=False, classes=["discarded_overlap"])
    S = np.array(spec["smat"])
    kw = {}
    if spec["factor"] != "default":
        kw["factor"] = spec["factor"]
    try:
        ph = Phonopy(c["cell"], supercell_matrix=S, primitive_matrix=_pmat(spec, c),
                     store_dense_svecs=spec["dense_svecs"], log_level=0, **kw)
    except Exception as e:
        return Out(nontrivial=False, rejected=True, classes=["ctor_rejected:" + type(e).__name__])
    prim = ph.primitive
    scell = ph.supercell
    Lp = prim.cell
    npa = len(prim)
    masses = prim.masses
    if spec.get("set_masses", "no") != "no":
        m_new = np.rint(masses * (1.0 + 0.5 * rng_from(spec["key"], 9).random(len(masses)))) + 1.0
        if spec["set_masses"] == "int_list":
            ph.masses = [int(x) for x in m_new]
        elif spec["set_masses"] == "int_array":
            ph.masses = np.array(m_new, dtype="int64")
        else:
            ph.masses = present(m_new, "strided")
        masses = np.array(m_new, dtype=float)
        prim = ph.primitive
        if not np.array_equal(np.asarray(prim.masses, dtype=float), masses):
            return Out(ok=False, msg="masses set through the setter (%s) are reported as %s" % (m_new.tolist(), np.asarray(prim.masses).tolist()))
    rng = rng_from(spec["key"])
    # supercell lattice in primitive coordinates (rows)
    T = scell.cell @ np.linalg.inv(Lp)
    Ti = np.rint(T)
    if np.abs(T - Ti).max() > 1e-6:
        return Out(ok=False, msg="supercell lattice is not an integer combination of primitive vectors: %s" % T)
    tmin = shortest_lattice_vector(scell.cell)
    if spec["regime"] == "short":
        rcut = 0.499 * tmin
    else:
        rcut = None
    ifc = IFC(Lp, prim.scaled_positions, rng, lmax=1, rcut=rcut)
    if spec["regime"] == "short" and not (ifc.range < 0.5 * tmin):
        return Out(nontrivial=False, classes=["skipped"])
    sc_pos_p = scell.positions @ np.linalg.inv(Lp)
    fc, ju = fold_ifc(ifc, sc_pos_p, Ti)
    fc_in = fc[prim.p2s_map].copy() if spec["compact"] else fc
    ph.force_constants = present(fc_in, spec.get("fclayout", "array"))
    factor = ph.unit_conversion_factor

    # q list: drawn q plus commensurate points
    qs = [np.array(q, dtype=float) for q in spec["qs"]]
    smat_p = Ti.T.astype(int)  # supercell matrix relative to the primitive cell (columns = supercell vectors)
    comm = get_commensurate_points(smat_p)
    # own check that these are commensurate: q . T_row integer for each supercell lattice row
    ci = rng.integers(0, len(comm), size=spec["ncomm"])
    comm_qs = [comm[i] + rng.integers(-1, 2, size=3) for i in ci]
    for q in comm_qs:
        if np.abs(Ti @ q - np.rint(Ti @ q)).max() > 1e-9:
            return Out(ok=False, msg="get_commensurate_points returned non-commensurate q %s" % q)
    all_q = [(q, False) for q in qs] + [(q, True) for q in comm_qs]
    nshell = len({round(float(np.linalg.norm((ifc.pos[b] + np.array(l) - ifc.pos[a]) @ Lp)), 4)
                  for (a, b, l) in ifc.phi if not (a == b and l == (0, 0, 0))})
    crosses = any(any(l) for (a, b, l) in ifc.phi)
    worst = 0.0
    asserted = 0
    dm = ph.dynamical_matrix
    for q, is_comm in all_q:
        if spec["regime"] == "long" and not is_comm:
            continue
        Dref = ifc.dynmat(q, masses)
        scale = max(np.abs(Dref).max(), 1e-12)
        lay = spec.get("qlayout", "array")
        q1 = q_in_layout([q * 0 + 0.123, q], lay)[1]  # a single q, possibly a strided 1-D view
        dm.run(q1, lang="C")
        Dc = dm.dynamical_matrix.copy()
        dm.run(q1, lang="Py")
        Dp = dm.dynamical_matrix.copy()
        Db = run_dynamical_matrix_solver_c(dm, q_in_layout([q * 0 + 0.321, q], lay))[1]
        ph.run_qpoints(q_in_layout([q], lay), with_dynamical_matrices=True)
        qd = ph.get_qpoints_dict()
        Dq = qd["dynamical_matrices"][0]
        fr = qd["frequencies"][0]
        ev = np.linalg.eigvalsh(Dref)
        lam_got = np.sign(fr) * (fr / factor) ** 2
        for name, D in (("C", Dc), ("Py", Dp), ("batched", Db), ("run_qpoints", Dq)):
            e = relerr(D, Dref, scale)
            worst = max(worst, e)
            if e > 1e-9:
                return Out(ok=False, info={"err": e},
                           msg="dynamical matrix (%s path) differs from the lattice Fourier sum at q=%s (%s regime, "
                               "commensurate=%s): rel err %.3e" % (name, q.tolist(), spec["regime"], is_comm, e))
        e = relerr(lam_got, ev, max(np.abs(ev).max(), 1e-12))
        worst = max(worst, e)
        if e > 1e-9:
            return Out(ok=False, info={"err": e},
                       msg="frequencies at q=%s are not sign(e)sqrt|e|*factor of the Fourier-sum eigenvalues: %.3e (factor %r)"
                       % (q.tolist(), e, factor))
        f2 = ph.get_frequencies(q1)
        if relerr(np.sign(f2) * (f2 / factor) ** 2, ev, max(np.abs(ev).max(), 1e-12)) > 1e-9:
            return Out(ok=False, msg="get_frequencies differs from Fourier-sum eigenvalues at q=%s" % q.tolist())
        asserted += 1
    if spec["regime"] == "short":
        # the same frequencies through the mesh routes (stored and iterated): unit factor and Fourier sum at the mesh's own q-points
        mesh = [2, 1, 3]
        ph.run_mesh(mesh, is_mesh_symmetry=False, is_gamma_center=bool(spec["key"] % 2))
        md = ph.get_mesh_dict()
        ph.init_mesh(mesh, is_mesh_symmetry=False, is_gamma_center=bool(spec["key"] % 2), use_iter_mesh=True)
        fi = np.array([fr for fr, _ in ph.mesh])
        for route, fm in (("run_mesh", md["frequencies"]), ("iterated mesh", fi)):
            for qm, fr in zip(md["qpoints"], fm):
                ev = np.linalg.eigvalsh(ifc.dynmat(qm, masses))
                e = relerr(np.sign(fr) * (fr / factor) ** 2, ev, max(np.abs(ev).max(), np.abs(fc).max() / masses.min()))
                if e > 1e-9:
                    return Out(ok=False, info={"err": e}, msg="%s frequencies at q=%s are not sign(e)sqrt|e|*factor of the Fourier-sum eigenvalues: "
                               "%.3e (factor %r)" % (route, np.asarray(qm).tolist(), e, factor))
        asserted += 1
    nondiag = bool(np.any(S - np.diag(np.diag(S))))
    cent = npa < len(c["cell"])
    special_q = any(np.abs(q).max() > 0.5 + 1e-9 or np.any(np.abs(np.abs(q) - 0.5) < 1e-9) for q, _ in all_q)
    nontriv = asserted > 0 and nshell >= 2 and crosses and (nondiag or cent or spec["compact"] or not spec["dense_svecs"] or special_q)
    classes = ["qlayout:" + spec.get("qlayout", "array"), spec["regime"], "compact" if spec["compact"] else "full", "dense" if spec["dense_svecs"] else "sparse",
               "nondiag" if nondiag else "diag", "centred_prim" if cent else "p_prim", spec["crystal"]["kind"]]
    return Out(ok=True, nontrivial=nontriv, classes=classes, info={"err": worst, "natom": len(scell), "asserted_q": asserted})


SUBCHECKS = [
    Sub("fourier", run=run_fourier, strategy=fourier_specs,
        examples={"quick": 1200, "thorough": 30000}, shards={"quick": 12, "thorough": 16},
        budget={"quick": 100, "thorough": 1500},
        what="D(q) via C, Py, batched solver, run_qpoints and frequencies == own Fourier sum of own folded IFC model"),
]
