"""C05 Shortest-vector tables are the complete set of minimum-image vectors."""
import numpy as np
from hypothesis import strategies as st

from gen.crystals import build_crystal, crystal_with_supercell, keys
from oracles.lattice import TooExpensive, min_images
from vlib.case import Out, Sub, rng_from

PROPERTY = "C05"
TECHNIQUE = "property-based testing (Hypothesis): differential against exhaustive image enumeration inside a proven window"
RULE = ("'direct': lattices of kind random | needle/plate (aspect up to 30) | unimodularly sheared (entries up to 5, 10% up "
        "to 100) cubic/hex/random | exact fcc/bcc/hcp/sc/rhombohedral-60deg | near-Niggli-boundary (angles 60/90/120 deg "
        "+-1e-6); positions random, on rational grids (forcing ties up to 8), optionally with sub-tolerance noise; both "
        "storage formats; symprec 1e-5 or 1e-3. 'primitive': tables of Phonopy's Primitive (primitive coordinates) for "
        "generated crystals and supercells. Oracle: all images with |n_i| <= ceil(r|b*_i|)+1 enumerated. Non-trivial: some "
        "multiplicity >= 2, or Niggli transformation != identity, or aspect >= 5. Distinct by spec hash.")
ASSUMPTIONS = ["images whose length lies in [min+tol/2, min+tol*1.01] are don't-care (tolerance band)"]


@st.composite
def direct_specs(draw, tier):
    return {
        "key": draw(keys),
        "kind": draw(st.sampled_from(["random", "needle", "sheared", "highsym", "highsym", "boundary"])),
        "hs": draw(st.sampled_from(["fcc", "bcc", "sc", "hex", "rh60", "bct"])),
        "shear": draw(st.lists(st.integers(-5, 5), min_size=3, max_size=3)),
        "bigshear": draw(st.sampled_from([0, 0, 0, 0, 0, 0, 0, 0, 0, 1])),
        "grid": draw(st.sampled_from([0, 2, 3, 4, 6])),
        "ns": draw(st.integers(1, 5)),
        "many": draw(st.sampled_from([0] * 19 + [1])),  # occasionally a few hundred positions (size-dependent code paths, OpenMP)
        "np": draw(st.integers(1, 3)),
        "noise": draw(st.sampled_from([0.0, 0.0, 1e-9, 1e-8, 1e-7])),
        "symprec": draw(st.sampled_from([1e-5, 1e-5, 1e-3])),
        "supercell_mult": draw(st.sampled_from([1, 1, 2, 3])),
        # the tables of one cell are still in use when those of another cell of the same size are made (displaced supercells, volumes)
        "then_another": draw(st.booleans()),
    }


def make_lattice(spec, rng):
    kind = spec["kind"]
    hs = {"fcc": np.array([[0, .5, .5], [.5, 0, .5], [.5, .5, 0]]) * 4.0,
          "bcc": np.array([[-.5, .5, .5], [.5, -.5, .5], [.5, .5, -.5]]) * 3.2,
          "sc": np.eye(3) * 3.0,
          "hex": np.array([[3.0, 0, 0], [-1.5, 1.5 * np.sqrt(3), 0], [0, 0, 4.9]]),
          "rh60": np.array([[1, 1, 0], [0, 1, 1], [1, 0, 1]]) * 2.0,
          "bct": np.array([[-1.5, 1.5, 2.2], [1.5, -1.5, 2.2], [1.5, 1.5, -2.2]])}
    if kind == "random":
        L = rng.normal(size=(3, 3)) * 3
    elif kind == "needle":
        L = np.diag([1, 1, rng.uniform(5, 30)]) @ (np.eye(3) + rng.normal(size=(3, 3)) * 0.1)
        if rng.random() < 0.5:
            L = np.diag([rng.uniform(5, 30), rng.uniform(5, 30), 1]) @ (np.eye(3) + rng.normal(size=(3, 3)) * 0.1)
    elif kind in ("sheared", "highsym"):
        L = hs[spec["hs"]].copy()
        if spec["supercell_mult"] > 1:
            L = L * np.array([spec["supercell_mult"], 1, 1])[:, None]
        if kind == "sheared":
            a, b, c = spec["shear"]
            if spec["bigshear"]:
                a, b, c = a * 20, b * 20, c * 20
            U = np.array([[1, a, b], [0, 1, c], [0, 0, 1]]) @ np.array([[1, 0, 0], [c, 1, 0], [a, b, 1]])
            L = U @ L
    else:  # boundary: angles at 60/90/120 degrees +- 1e-6
        ang = np.deg2rad(np.array([rng.choice([60, 90, 120]) for _ in range(3)]) + rng.uniform(-1e-6, 1e-6, 3))
        a, b, c = 3.0, 3.0 * (1 + rng.choice([0, 1e-7, 0.3])), 3.0 * (1 + rng.choice([0, 1e-7, 0.5]))
        ca, cb, cg = np.cos(ang)
        v = 1 - ca**2 - cb**2 - cg**2 + 2 * ca * cb * cg
        if v <= 1e-3:
            return None
        L = np.array([[a, 0, 0], [b * cg, b * np.sin(ang[2]), 0],
                      [c * cb, c * (ca - cb * cg) / np.sin(ang[2]), c * np.sqrt(v) / np.sin(ang[2])]])
    if abs(np.linalg.det(L)) < 0.5:
        return None
    return L


def check_tables(L, ps, pp, dense, sparse, tol):
    """Compare stored tables with brute force. dense=(svecs,multi) or None; sparse likewise. Vectors in fractional coords of L."""
    max_mult = 1
    for i in range(len(ps)):
        for j in range(len(pp)):
            m, vecs, lens = min_images(ps[i] - pp[j], L, tol)
            must = vecs[lens < m + tol / 2]
            may = vecs[lens < m + tol * 1.01]
            stored = {}
            if dense is not None:
                sv, mu = dense
                stored["dense"] = sv[mu[i, j, 1]:mu[i, j, 1] + mu[i, j, 0]] @ L
            if sparse is not None:
                sv, mu = sparse
                stored["sparse"] = sv[i, j, :mu[i, j]] @ L
            for name, got in stored.items():
                if len(got) == 0:
                    return "pair (%d,%d) %s: no vector stored" % (i, j, name), max_mult
                gl = np.linalg.norm(got, axis=1)
                if gl.max() > m + tol * 1.01:
                    return "pair (%d,%d) %s: stored vector of length %.9f exceeds the true minimum %.9f" % (i, j, name, gl.max(), m), max_mult
                for g in got:
                    if np.linalg.norm(may - g, axis=1).min() > 1e-7 * max(1.0, m):
                        return "pair (%d,%d) %s: stored vector %s is not a periodic image of the separation" % (i, j, name, g), max_mult
                for v in must:
                    k = int((np.linalg.norm(got - v, axis=1) < 1e-7 * max(1.0, m)).sum())
                    if k != 1:
                        return "pair (%d,%d) %s: minimum image %s stored %d times (true minimum %.9f, %d tying images, %d stored)" % (
                            i, j, name, v, k, m, len(must), len(got)), max_mult
                if len(got) > 1:
                    d = np.linalg.norm(got[:, None, :] - got[None, :, :], axis=2)
                    d[np.arange(len(got)), np.arange(len(got))] = np.inf
                    if d.min() < tol / 10:
                        return "pair (%d,%d) %s: duplicated vector" % (i, j, name), max_mult
                max_mult = max(max_mult, len(got))
            if len(stored) == 2:
                a, b = stored["dense"], stored["sparse"]
                if len(a) != len(b) or any(np.linalg.norm(b - x, axis=1).min() > 1e-9 * max(1.0, m) for x in a):
                    return "pair (%d,%d): dense and sparse storage describe different sets (%d vs %d)" % (i, j, len(a), len(b)), max_mult
    return None, max_mult


def run_direct(spec):
    from phonopy.structure.cells import get_reduced_bases, get_smallest_vectors

    rng = rng_from(spec["key"])
    L = make_lattice(spec, rng)
    if L is None:
        return Out(nontrivial=False, classes=["discarded_degenerate"])
    g = spec["grid"]
    ns = spec["ns"]
    if spec.get("many"):
        ns = int(rng.integers(130, 300))
        if g:
            g = 12  # enough grid sites for distinct positions; ties stay frequent
    ps = rng.integers(0, g, size=(ns, 3)) / g if g else rng.random((ns, 3))
    if spec["noise"]:
        ps = ps + rng.uniform(-1, 1, size=ps.shape) * spec["noise"] / np.linalg.norm(L, axis=1).max()
    pp = ps[: min(spec["np"], ns)].copy()
    tol = spec["symprec"]
    L = np.array(L, dtype="double", order="C")
    ps = np.array(ps, dtype="double", order="C")
    pp = np.array(pp, dtype="double", order="C")
    try:
        dense = get_smallest_vectors(L, ps, pp, store_dense_svecs=True, symprec=tol)
        sparse = get_smallest_vectors(L, ps, pp, store_dense_svecs=False, symprec=tol)
    except Exception as e:
        # documented limitation: Niggli reduction may fail for extreme shears
        return Out(nontrivial=False, rejected=True, classes=["rejected:" + type(e).__name__, spec["kind"]])
    if spec.get("then_another"):
        r2 = rng_from(spec["key"] + 99)
        ps2 = np.array(ps + r2.uniform(-0.3, 0.3, size=ps.shape), dtype="double", order="C")
        try:
            for dns in (True, False):
                get_smallest_vectors(np.array(L * 1.01, order="C"), ps2, np.array(ps2[: len(pp)], order="C"), store_dense_svecs=dns, symprec=tol)
        except Exception:
            pass
    try:
        err, mm = check_tables(L, ps, pp, dense, sparse, tol)
    except TooExpensive:
        return Out(nontrivial=False, classes=["oracle_too_expensive", spec["kind"]])
    if err:
        return Out(ok=False, msg="%s (lattice kind %s, symprec %g, noise %g)" % (err, spec["kind"], tol, spec["noise"]))
    try:
        red = get_reduced_bases(L, method="niggli", tolerance=tol)
        tm = np.rint(L @ np.linalg.inv(red))
        reduced_nontrivial = not np.array_equal(np.abs(tm), np.eye(3))
    except Exception:
        reduced_nontrivial = False
    lens = np.linalg.norm(L, axis=1)
    aspect = lens.max() / lens.min()
    return Out(ok=True, nontrivial=(mm >= 2 or reduced_nontrivial or aspect >= 5),
               classes=[spec["kind"], "mult:%d" % mm, "noise" if spec["noise"] else "exact", "niggli_nontrivial" if reduced_nontrivial else "niggli_id"] +
               (["many_positions"] if spec.get("many") else []) + (["checked_after_a_later_call" if spec.get("then_another") else "checked_at_once"]),
               info={"max_multiplicity": mm})


@st.composite
def prim_specs(draw, tier):
    b = draw(crystal_with_supercell(max_atoms=48, max_unit=8, max_det=12, noise=True))
    b["pmat"] = draw(st.sampled_from(["none", "auto", "centring"]))
    return b


def run_primitive(spec):
    from phonopy import Phonopy

    c = build_crystal(spec["crystal"])
    if c is None:
        return Out(nontrivial=False, classes=["discarded_overlap"])
    pm = {"none": None, "auto": "auto", "centring": c["centring"] or "auto"}[spec["pmat"]]
    tabs = {}
    try:
        for dense in (True, False):
            ph = Phonopy(c["cell"], supercell_matrix=np.array(spec["smat"]), primitive_matrix=pm, store_dense_svecs=dense, log_level=0)
            tabs[dense] = (ph.primitive.get_smallest_vectors(), ph)
    except Exception as e:
        return Out(nontrivial=False, rejected=True, classes=["ctor_rejected:" + type(e).__name__])
    ph = tabs[True][1]
    prim, sc = ph.primitive, ph.supercell
    # tables are in primitive coordinates; express everything in primitive coordinates with the supercell lattice as period
    Lp = prim.cell
    Ls_in_p = sc.cell @ np.linalg.inv(Lp)  # supercell vectors in primitive coords (rows)
    ps = sc.scaled_positions
    pp = ps[prim.p2s_map]
    # brute force in supercell fractional coords, vectors compared in Cartesian: convert stored (primitive coords) to supercell coords
    to_s = np.linalg.inv(Ls_in_p)  # primitive coords -> supercell coords
    dsv, dmu = tabs[True][0]
    ssv, smu = tabs[False][0]
    dense = (dsv @ to_s, dmu)
    sparse = (ssv @ to_s, smu)
    err, mm = check_tables(sc.cell, ps, pp, dense, sparse, 1e-5)
    if err:
        return Out(ok=False, msg="Primitive.get_smallest_vectors: " + err)
    reordered = False
    if len(prim) >= 2:
        # the documented option that fixes the order of primitive atoms: the table columns must follow the atoms
        from phonopy.structure.cells import Primitive

        order = rng_from(spec["crystal"]["key"], 13).permutation(len(prim))
        t2 = {}
        try:
            for dns in (True, False):
                p2 = Primitive(sc, prim.primitive_matrix, store_dense_svecs=dns, positions_to_reorder=prim.scaled_positions[order])
                t2[dns] = (p2.get_smallest_vectors(), p2)
        except Exception as e:
            return Out(ok=False, msg="Primitive(positions_to_reorder=<permutation %s of its own positions>) raised %r" % (order.tolist(), e))
        p2 = t2[True][1]
        if list(np.array(p2.p2s_map)) != list(np.array(prim.p2s_map)[order]):
            return Out(ok=False, msg="positions_to_reorder: p2s_map %s is not the requested permutation %s of %s" % (list(p2.p2s_map), order.tolist(), list(prim.p2s_map)))
        d2, s2 = t2[True][0], t2[False][0]
        err, mm2 = check_tables(sc.cell, ps, ps[p2.p2s_map], (d2[0] @ to_s, d2[1]), (s2[0] @ to_s, s2[1]), 1e-5)
        if err:
            return Out(ok=False, msg="Primitive.get_smallest_vectors with positions_to_reorder=%s: %s" % (order.tolist(), err))
        reordered = True
    S = np.array(spec["smat"])
    return Out(ok=True, nontrivial=mm >= 2 or bool(np.any(S - np.diag(np.diag(S)))),
               classes=["mult:%d" % mm, spec["crystal"]["kind"], "noise" if spec["crystal"].get("noise") else "exact"] + (["reordered"] if reordered else []),
               info={"max_multiplicity": mm})


SUBCHECKS = [
    Sub("direct", run=run_direct, strategy=direct_specs, examples={"quick": 3000, "thorough": 150000},
        shards={"quick": 12, "thorough": 16}, budget={"quick": 100, "thorough": 2400},
        what="get_smallest_vectors (dense and sparse) vs exhaustive image enumeration on adversarial lattices"),
    Sub("primitive", run=run_primitive, strategy=prim_specs, examples={"quick": 600, "thorough": 20000},
        shards={"quick": 4, "thorough": 16}, budget={"quick": 100, "thorough": 2400},
        what="Primitive.get_smallest_vectors() of generated crystals/supercells vs exhaustive enumeration"),
]
