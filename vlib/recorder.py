"""Record calls of the compiled kernels (phonopy._phonopy) made by the Python layer.

The module attributes are looked up at call time by phonopy (`phonoc.f(...)`), so
replacing them by recording closures needs no change in /repo.
"""
import collections
import re

import numpy as np

from vlib.case import REPO

# argument positions each kernel is allowed to write (everything else is an input)
OUT_ARGS = {
    "transform_dynmat_to_fc": {0}, "perm_trans_symmetrize_fc": {0}, "perm_trans_symmetrize_compact_fc": {0},
    "transpose_compact_fc": {0}, "dynamical_matrices_with_dd_openmp_over_qpoints": {0}, "recip_dipole_dipole": {0},
    "recip_dipole_dipole_q0": {0}, "derivative_dynmat": {0}, "thermal_properties": {0}, "distribute_fc2": {0},
    "compute_permutation": {0}, "gsv_set_smallest_vectors_sparse": {0, 1}, "gsv_set_smallest_vectors_dense": {0, 1},
    "tetrahedra_relative_grid_address": {0}, "all_tetrahedra_relative_grid_address": {0},
    "tetrahedra_integration_weight": set(), "tetrahedra_integration_weight_at_omegas": {0},
    "tetrahedra_frequencies": {0}, "tetrahedron_method_dos": {0},
}
SKIP = ("use_openmp", "omp_max_threads")
CAN = 64


def parse_glue():
    """{python name: [ctype or None per argument]} derived from c/_phonopy.cpp (kept in sync with the source)."""
    src = open(REPO + "/c/_phonopy.cpp").read()
    defs = dict(re.findall(r'm\.def\(\s*"(\w+)",\s*&(\w+)\)', src))
    table = {}
    for pyname, cname in defs.items():
        m = re.search(r"\b" + cname + r"\s*\(([^)]*)\)\s*\{", src)
        if not m:
            continue
        body_start = m.end()
        depth, i = 1, body_start
        while depth and i < len(src):
            depth += {"{": 1, "}": -1}.get(src[i], 0)
            i += 1
        body = src[body_start:i]
        args = []
        for a in m.group(1).split(","):
            a = a.strip()
            if not a:
                continue
            name = a.split()[-1].lstrip("*&")
            if "ndarray" in a:
                mm = re.search(r"\(\s*(double|int64_t|int|char)\s*[\(\*][^;]*?\)\s*" + re.escape(name) + r"\.data\(\)", body)
                args.append(mm.group(1) if mm else "unknown")
            else:
                args.append(None)
        table[pyname] = args
    return table


CTYPE_TO_DTYPE = {"double": ("f", 8), "int64_t": ("i", 8), "int": ("i", 4)}


class Recorder:
    def __init__(self, keep_per_kernel=10, canaries=True):
        self.records = []
        self.counts = collections.Counter()
        self.issues = []
        self.keep = keep_per_kernel
        self.canaries = canaries
        self.glue = parse_glue()
        self._orig = {}
        self._slots = {}

    def install(self):
        import phonopy._phonopy as phonoc

        for name in dir(phonoc):
            f = getattr(phonoc, name)
            if callable(f) and not name.startswith("_") and name not in SKIP:
                self._orig[name] = f
                setattr(phonoc, name, self._wrap(name, f))
        return self

    def uninstall(self):
        import phonopy._phonopy as phonoc

        for name, f in self._orig.items():
            setattr(phonoc, name, f)

    def _check_glue(self, name, args):
        want = self.glue.get(name)
        if want is None:
            self.issues.append("%s: kernel not found in the glue table" % name)
            return
        if len(want) != len(args):
            self.issues.append("%s: called with %d arguments, glue takes %d" % (name, len(args), len(want)))
            return
        for i, (a, ct) in enumerate(zip(args, want)):
            if ct is None:
                if isinstance(a, np.ndarray):
                    self.issues.append("%s arg %d: array passed where the glue takes a scalar" % (name, i))
                continue
            if not isinstance(a, np.ndarray):
                self.issues.append("%s arg %d: %s passed where the glue takes an array" % (name, i, type(a).__name__))
                continue
            if not a.flags.c_contiguous:
                self.issues.append("%s arg %d: non C-contiguous array (shape %s strides %s); the glue reads .data() ignoring strides"
                                   % (name, i, a.shape, a.strides))
            if ct in CTYPE_TO_DTYPE:
                kind, size = CTYPE_TO_DTYPE[ct]
                ok = (a.dtype.kind == kind and a.dtype.itemsize == size) or \
                     (ct == "double" and a.dtype.kind == "c" and a.dtype.itemsize == 16)
                if not ok:
                    self.issues.append("%s arg %d: dtype %s passed, glue casts the buffer to %s*" % (name, i, a.dtype, ct))
            if i in OUT_ARGS.get(name, set()) and not a.flags.writeable:
                self.issues.append("%s arg %d: output array not writeable" % (name, i))

    def _wrap(self, name, fn):
        def w(*args):
            self.counts[name] += 1
            self._check_glue(name, args)
            # the first half of the quota keeps the earliest calls, the second half is a ring of the latest calls, so that both the
            # set-up phase and the last queries of a scenario are represented
            keep = True
            before = [np.array(a, copy=True) if isinstance(a, np.ndarray) else a for a in args] if keep or self.canaries else None
            if self.canaries and all((not isinstance(a, np.ndarray)) or a.flags.c_contiguous for a in args):
                # run on padded copies with canaries on both sides, then copy results back
                raws, views = [], []
                for a in args:
                    if isinstance(a, np.ndarray):
                        raw = np.empty(a.nbytes + 2 * CAN, dtype=np.uint8)
                        raw[:CAN] = 0xA5
                        raw[CAN + a.nbytes:] = 0x5A
                        v = raw[CAN:CAN + a.nbytes].view(a.dtype).reshape(a.shape)
                        v[...] = a
                        raws.append(raw)
                        views.append(v)
                    else:
                        raws.append(None)
                        views.append(a)
                r = fn(*views)
                for i, (a, v, raw) in enumerate(zip(args, views, raws)):
                    if raw is None:
                        continue
                    if not ((raw[:CAN] == 0xA5).all() and (raw[CAN + a.nbytes:] == 0x5A).all()):
                        self.issues.append("%s arg %d: bytes outside the array were overwritten (canary destroyed)" % (name, i))
                    changed = not np.array_equal(v.view(np.uint8), before[i].view(np.uint8)) if a.nbytes else False
                    if changed:
                        if i not in OUT_ARGS.get(name, set()):
                            self.issues.append("%s arg %d: input array was modified by the kernel" % (name, i))
                        if a.flags.writeable:
                            a[...] = v
            else:
                r = fn(*args)
            if keep:
                after = [np.array(a, copy=True) if isinstance(a, np.ndarray) else None for a in args]
                rec = {"name": name, "args": before, "after": after, "ret": r}
                slots = self._slots.setdefault(name, [])
                if len(slots) < self.keep:
                    slots.append(len(self.records))
                    self.records.append(rec)
                else:
                    head = self.keep // 2
                    ring = self.keep - head
                    k = head + (self.counts[name] - self.keep - 1) % ring
                    self.records[slots[k]] = rec
            return r

        return w
