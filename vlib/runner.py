"""Parent process of a check: builds, shards, merges, evidence, exit code.

exit 0: property held on everything explored (KNOWN-FINDING lines allowed)
exit 1: VIOLATION property=<id> replay=<path>
exit 2: harness error
"""
import argparse
import collections
import glob
import importlib
import json
import os
import subprocess
import sys
import tempfile
import time
from concurrent.futures import ThreadPoolExecutor

VERIF = os.path.dirname(os.path.dirname(os.path.abspath(__file__)))
NPROC = int(os.environ.get("VERIF_NPROC", "16"))
PY = sys.executable


def worker_env(build):
    from vlib import build as B

    env = dict(os.environ)
    env["PYTHONPATH"] = VERIF + os.pathsep + B.REPO + os.pathsep + B.DEPS
    env["PYTHONHASHSEED"] = "0"
    env["VERIF_BUILD"] = build
    env.pop("OMP_NUM_THREADS", None)
    env["OMP_NUM_THREADS"] = "4"
    env["OPENBLAS_NUM_THREADS"] = "1"
    env["MKL_NUM_THREADS"] = "1"
    env["PHONOPY_VERIF"] = "1"
    if build == "asan":
        env.update(B.asan_env())
    return env


FATAL_SIGNALS = {-11: "SIGSEGV", -6: "SIGABRT", -7: "SIGBUS", -8: "SIGFPE", -4: "SIGILL"}


def _fault_frames(text):
    """Python frames of the thread that was running when the process died (faulthandler dump), innermost first."""
    if "Fatal Python error" in text:
        tail = text[text.rindex("Fatal Python error"):]
    elif "Current thread" in text:
        tail = text[text.rindex("Current thread"):]
    else:
        return []
    frames = []
    started = False
    for line in tail.split("\n"):
        if line.startswith("Current thread") or line.startswith("Stack (most recent call first)"):
            started = True
            continue
        if started:
            if line.strip().startswith("File "):
                frames.append(line.strip())
            elif frames:
                break
    return frames


def _crash_failure(args, rc, text):
    """A worker killed by a fatal signal while evaluating a case: the case is re-run alone in a fresh process. If the process dies again
    and the innermost Python frame that called into compiled code belongs to the repository under test (not to a third-party library such
    as spglib), the code under test crashed on a generated input: that is a failure of the property being checked, with the case as replay.
    Anything else (not reproducible, crash inside a dependency, sanitizer builds handled elsewhere) stays a harness error."""
    if rc not in FATAL_SIGNALS or args.get("_isolating") or args.get("mode", "run") not in ("run", "replay"):
        return None
    from vlib import build as B

    def inner(frames):
        for fr in frames:
            if "/vlib/recorder.py" in fr:
                continue  # the recording wrapper around a compiled kernel: look at its caller
            if "/vlib/" in fr or "/props/" in fr or "/oracles/" in fr or "/gen/" in fr:
                return None  # reached harness code without passing through the repository
            return fr
        return None

    if args.get("mode") == "replay":
        spec, text2 = args["spec"], "rc=%s\n%s" % (rc, text)
    else:
        cur = args["out"] + ".cur"
        if not os.path.exists(cur):
            return None
        try:
            with open(cur) as f:
                spec = json.load(f)
        except Exception:  # noqa: BLE001
            return None
        again = run_worker(dict(args, mode="replay", spec=spec, _isolating=True), 900)
        text2 = again.get("harness_error") or ""
    frames = _fault_frames(text2)
    top = inner(frames)
    if not any("rc=%d" % k in text2.split("\n", 1)[0] for k in FATAL_SIGNALS):
        return None  # the case alone does not kill the process: not reproducible
    if top is None or os.path.realpath(B.REPO) not in os.path.realpath(top.split('"')[1] if '"' in top else top):
        return None
    return {"spec": spec, "msg": "the process died with %s while phonopy evaluated this case (reproduced in a fresh process); innermost Python frames:\n  %s"
            % (FATAL_SIGNALS[rc], "\n  ".join(frames[:6])), "info": None}


def run_worker(args, timeout):
    fd, argfile = tempfile.mkstemp(prefix="vw-", suffix=".json", dir=args["tmpdir"])
    os.close(fd)
    args = dict(args)
    args["out"] = argfile + ".out"
    with open(argfile, "w") as f:
        json.dump(args, f)
    log = argfile + ".log"
    try:
        with open(log, "w") as lf:
            p = subprocess.run([PY, "-m", "vlib.worker", argfile], cwd=VERIF, env=worker_env(args["build"]),
                               stdout=lf, stderr=subprocess.STDOUT, timeout=timeout)
        rc = p.returncode
    except subprocess.TimeoutExpired:
        rc = -9
    res = None
    if os.path.exists(args["out"]):
        try:
            with open(args["out"]) as f:
                res = json.load(f)
        except Exception:  # noqa: BLE001
            res = None
    with open(log) as lf:
        text = lf.read()
    if res is None:
        res = {"harness_error": "worker produced no result (rc=%s)\n%s" % (rc, text[-6000:]),
               "evaluations": 0, "nontrivial": [], "classes": {}, "samples": [], "rejected": 0,
               "excluded_known": {}, "failure": None, "budget_hit": rc == -9, "exhaustive": False, "max_info": {}}
        crash = _crash_failure(args, rc, text)
        if crash is not None:
            res["harness_error"] = None
            res["failure"] = crash
        if args["build"] == "asan" and ("AddressSanitizer" in text or "runtime error" in text):
            res["harness_error"] = None
            res["failure"] = {"spec": {"shard_args": {k: args[k] for k in ("prop", "sub", "shard", "seed", "tier", "build")}},
                              "msg": "sanitizer report:\n" + text[-3000:], "info": None}
    res["_args"] = {k: args[k] for k in ("sub", "shard", "build", "threads")}
    res["_log_tail"] = text[-800:]
    return res


def load_findings():
    path = os.path.join(VERIF, "known_findings.json")
    if not os.path.exists(path):
        return []
    with open(path) as f:
        return json.load(f).get("findings", [])


def main(argv=None):
    ap = argparse.ArgumentParser()
    ap.add_argument("prop")
    ap.add_argument("--tier", default=os.environ.get("VERIF_TIER", "quick"), choices=["quick", "thorough"])
    ap.add_argument("--replay")
    ap.add_argument("--only", help="comma-separated sub-check names")
    ap.add_argument("--scale", type=float, default=1.0, help="multiply example counts")
    ap.add_argument("--no-evidence", action="store_true")
    a = ap.parse_args(argv)
    prop = a.prop.upper()
    seed = int(os.environ.get("VERIF_SEED", "1"))
    t0 = time.time()
    sys.path.insert(0, VERIF)
    from vlib import build as B

    try:
        B.ensure_deps()
        sys.path.insert(0, B.DEPS)
        sys.path.insert(0, B.REPO)
        mod = importlib.import_module("props." + prop.lower())
        builds = sorted({b for s in mod.SUBCHECKS for b in s.builds})
        with ThreadPoolExecutor(3) as ex:
            list(ex.map(B.ensure_ext, builds))
    except Exception as e:  # noqa: BLE001
        print("HARNESS-ERROR: %r" % (e,))
        return 2

    tmpdir = tempfile.mkdtemp(prefix="verif-%s-" % prop, dir=os.environ.get("VERIF_TMP", "/var/tmp"))
    try:
        return _main(a, prop, seed, t0, mod, tmpdir)
    finally:
        import shutil

        shutil.rmtree(tmpdir, ignore_errors=True)


def _main(a, prop, seed, t0, mod, tmpdir):
    tier = a.tier
    if a.replay:
        with open(a.replay) as f:
            rp = json.load(f)
        res = run_worker({"mode": "replay", "prop": prop, "sub": rp["sub"], "spec": rp["spec"], "tier": tier,
                          "seed": seed, "shard": 0, "nshards": 1, "build": rp.get("build", "omp"),
                          "threads": rp.get("threads", 4), "examples": 1, "budget": 600, "tmpdir": tmpdir}, 900)
        if res.get("harness_error"):
            print("HARNESS-ERROR:", res["harness_error"])
            return 2
        if res.get("failure"):
            print(res["failure"]["msg"])
            print("VIOLATION property=%s replay=%s" % (prop, a.replay))
            return 1
        print("replay passes: property holds on this case")
        return 0

    only = set(a.only.split(",")) if a.only else None
    subs = [s for s in mod.SUBCHECKS if only is None or s.name in only]
    findings = [f for f in load_findings() if f.get("property") == prop]
    jobs = []
    # regression tier: replays of fixed findings
    for f in findings:
        if f.get("kind") == "fixed" and f.get("replay"):
            path = os.path.join(VERIF, f["replay"])
            with open(path) as fh:
                rp = json.load(fh)
            if only is not None and rp["sub"] not in only:
                continue
            jobs.append(({"mode": "replay", "prop": prop, "sub": rp["sub"], "spec": rp["spec"], "tier": tier,
                          "seed": seed, "shard": 0, "nshards": 1, "build": rp.get("build", "omp"),
                          "threads": rp.get("threads", 4), "examples": 1, "budget": 600, "tmpdir": tmpdir,
                          "_regress": f["replay"]}, 900))
    for s in subs:
        nsh = s.shards[tier]
        total = int(s.examples[tier] * a.scale)
        for sh in range(nsh):
            build = s.builds[sh % len(s.builds)]
            threads = (1, 2, 4, 3)[sh % 4]
            jobs.append(({"mode": "run", "prop": prop, "sub": s.name, "tier": tier, "seed": seed, "shard": sh,
                          "nshards": nsh, "build": build, "threads": threads,
                          "examples": max(1, -(-total // nsh)), "budget": s.budget[tier], "tmpdir": tmpdir},
                         s.budget[tier] * 2 + 600))
    # known-finding canonical reproductions
    for f in findings:
        if f.get("kind") == "known":
            jobs.append(({"mode": "repro", "prop": prop, "sub": f.get("match", {}).get("sub", subs[0].name if subs else ""),
                          "finding": f["id"], "tier": tier, "seed": seed, "shard": 0, "nshards": 1,
                          "build": f.get("build", "omp"), "threads": 4, "examples": 1, "budget": 300,
                          "tmpdir": tmpdir}, 600))

    with ThreadPoolExecutor(NPROC) as ex:
        results = list(ex.map(lambda j: run_worker(j[0], j[1]), jobs))

    per_sub = collections.OrderedDict()
    violations = []
    harness = []
    known_lines = []
    for (jargs, _), res in zip(jobs, results):
        mode = jargs["mode"]
        if res.get("harness_error"):
            harness.append((jargs, res["harness_error"]))
            continue
        if mode == "replay":
            if res.get("failure"):
                violations.append((jargs["sub"], jargs["build"], jargs["threads"], res["failure"], jargs.get("_regress")))
            continue
        if mode == "repro":
            f = [x for x in findings if x["id"] == jargs["finding"]][0]
            still = res.get("repro_still_fails")
            line = "KNOWN-FINDING: property=%s %s [%s]" % (prop, f["what"], f["id"])
            if still is False:
                line += " (note: canonical reproduction no longer fails on this tree)"
            known_lines.append(line)
            continue
        d = per_sub.setdefault(jargs["sub"], {"evaluations": 0, "nontrivial": set(), "classes": collections.Counter(),
                                              "samples": [], "rejected": 0, "excluded_known": collections.Counter(),
                                              "budget_hit": False, "exhaustive": True, "builds": collections.Counter(),
                                              "threads": collections.Counter(), "max_info": {}})
        d["evaluations"] += res["evaluations"]
        d["nontrivial"].update(res["nontrivial"])
        d["classes"].update(res["classes"])
        d["rejected"] += res["rejected"]
        d["excluded_known"].update(res["excluded_known"])
        d["budget_hit"] |= bool(res["budget_hit"])
        d["exhaustive"] &= bool(res["exhaustive"])
        d["builds"][jargs["build"]] += res["evaluations"]
        d["threads"][str(jargs["threads"])] += res["evaluations"]
        for k, v in res.get("max_info", {}).items():
            if k not in d["max_info"] or v > d["max_info"][k]:
                d["max_info"][k] = v
        if len(d["samples"]) < 3:
            d["samples"].extend(res["samples"][: 3 - len(d["samples"])])
        if res.get("failure"):
            violations.append((jargs["sub"], jargs["build"], jargs["threads"], res["failure"], None))

    for line in known_lines:
        print(line)
    rc = 0
    # a known finding whose signature suddenly matches much more often than recorded is a new problem, not the old one
    for f in findings:
        if f.get("kind") == "known" and f.get("max_rate") is not None:
            for sname, d in per_sub.items():  # the bound holds in every sub-check in which the signature is recognised
                if d["evaluations"] < 200:
                    continue
                rate = d["excluded_known"].get(f["id"], 0) / d["evaluations"]
                if rate > f["max_rate"]:
                    violations.append((sname, "omp", 1, {"spec": {"known_finding": f["id"], "rate": rate},
                                                         "msg": "signature of known finding %s matched %.2f%% of the cases of sub-check %s (recorded bound %.2f%%): "
                                                                "this is a different, more frequent failure" % (f["id"], 100 * rate, sname, 100 * f["max_rate"]),
                                                         "info": None}, None))
    replay_paths = []
    if violations:
        rc = 1
        os.makedirs(os.path.join(VERIF, "replays", prop), exist_ok=True)
        seen = set()
        for sub, build, threads, fail, regress in violations:
            from vlib.case import spec_hash

            if regress:
                path = os.path.join(VERIF, regress)
            else:
                h = spec_hash({"sub": sub, "spec": fail["spec"]})
                path = os.path.join(VERIF, "replays", prop, "%s-%s.json" % (sub, h))
                if h not in seen:
                    with open(path, "w") as f:
                        json.dump({"property": prop, "sub": sub, "build": build, "threads": threads,
                                   "spec": fail["spec"], "msg": fail["msg"], "info": fail.get("info")}, f, indent=1)
                seen.add(h)
            print("---- violation in sub-check %s (build %s) ----" % (sub, build))
            print(fail["msg"][:3000])
            print("VIOLATION property=%s replay=%s" % (prop, os.path.relpath(path, VERIF)))
            replay_paths.append(os.path.relpath(path, VERIF))
    if harness and rc == 0:
        rc = 2
    for jargs, err in harness:
        print("HARNESS-ERROR in %s shard %s (%s): %s" % (jargs["sub"], jargs["shard"], jargs["build"], err[:3000]))

    # generator regression: a sub-check with no non-trivial case is a harness error
    for s in subs:
        d = per_sub.get(s.name)
        if rc == 0 and d is not None and len(d["nontrivial"]) == 0 and d["evaluations"] > 0 and not d["budget_hit"]:
            print("HARNESS-ERROR: sub-check %s produced no non-trivial case" % s.name)
            rc = 2

    # classes a property declares as mandatory must be populated (generator regression otherwise)
    if rc == 0 and tier in ("quick", "thorough") and a.scale >= 1.0:
        for sname, req in getattr(mod, "REQUIRED_CLASSES", {}).items():
            d = per_sub.get(sname)
            if d is None or d["budget_hit"]:
                continue
            missing = [c for c in req if d["classes"].get(c, 0) == 0]
            if missing:
                print("HARNESS-ERROR: sub-check %s never produced required class(es) %s" % (sname, missing))
                rc = 2
    wall = time.time() - t0
    total_eval = sum(d["evaluations"] for d in per_sub.values())
    total_nt = sum(len(d["nontrivial"]) for d in per_sub.values())
    samples = []
    sub_cov = {}
    for name, d in per_sub.items():
        for smp in d["samples"][:2]:
            samples.append({"sub": name, "case": smp})
        sub_cov[name] = {
            "what": [s.what for s in subs if s.name == name][0],
            "evaluations": d["evaluations"], "distinct_nontrivial": len(d["nontrivial"]),
            "classes": dict(d["classes"]), "rejected": d["rejected"],
            "excluded_known": dict(d["excluded_known"]), "inconclusive_budget": d["budget_hit"],
            "exhaustive": d["exhaustive"], "builds": dict(d["builds"]), "threads": dict(d["threads"]),
            "max_observed": d["max_info"],
        }
    print("%s tier=%s seed=%d: %d evaluations, %d distinct non-trivial, %d violation(s), %.1fs" % (
        prop, tier, seed, total_eval, total_nt, len(violations), wall))
    for name, c in sub_cov.items():
        print("  %-22s eval=%-7d nontrivial=%-7d rejected=%-5d excluded_known=%s%s%s" % (
            name, c["evaluations"], c["distinct_nontrivial"], c["rejected"], sum(c["excluded_known"].values()),
            " EXHAUSTIVE" if c["exhaustive"] else "", " BUDGET-HIT" if c["inconclusive_budget"] else ""))
    if not a.no_evidence and rc != 2 and total_eval > 0:
        ev = {
            "property_id": prop, "tier": tier, "seed": seed, "level": "exploration",
            "coverage": {
                "evaluations": total_eval, "distinct_nontrivial": total_nt,
                "rule": getattr(mod, "RULE", ""),
                "samples": samples or [{"note": "no sample recorded"}],
                "exhaustive": bool(per_sub) and all(d["exhaustive"] for d in per_sub.values()),
                "sub_checks": sub_cov,
                "known_findings_reported": known_lines,
                "replays_written": replay_paths,
                "only": sorted(only) if only else None,
            },
            "assumptions": getattr(mod, "ASSUMPTIONS", []),
            "wall_s": round(wall, 2),
            "violations": len(violations),
        }
        os.makedirs(os.path.join(VERIF, "evidence"), exist_ok=True)
        with open(os.path.join(VERIF, "evidence", prop + ".json"), "w") as f:
            json.dump(ev, f, indent=1, sort_keys=True)
    return rc


if __name__ == "__main__":
    sys.exit(main())
