"""Process bootstrap: make /repo's phonopy importable together with the
extension variant selected by VERIF_BUILD (omp|serial|asan)."""
import os
import sys
import warnings

VERIF = os.path.dirname(os.path.dirname(os.path.abspath(__file__)))
REPO = os.environ.get("VERIF_REPO", "/repo")
_done = {}


def bootstrap(build=None):
    build = build or os.environ.get("VERIF_BUILD", "omp")
    if _done:
        if _done["build"] != build:
            raise RuntimeError("process already bound to build %s" % _done["build"])
        return _done["dir"]
    from vlib import build as B

    deps = B.ensure_deps()
    if deps not in sys.path:
        sys.path.insert(0, deps)
    if REPO not in sys.path:
        sys.path.insert(0, REPO)
    warnings.simplefilter("ignore")
    extdir = B.ensure_ext(build)
    import phonopy

    if not phonopy.__file__.startswith(REPO):
        raise RuntimeError("phonopy imported from %s, not %s" % (phonopy.__file__, REPO))
    if extdir not in phonopy.__path__:
        phonopy.__path__.append(extdir)
    _done.update(build=build, dir=extdir)
    return extdir


_gomp = None


def set_threads(n):
    """Set the OpenMP thread count in-process (no-op for the serial build)."""
    global _gomp
    import ctypes

    if _gomp is None:
        try:
            _gomp = ctypes.CDLL("libgomp.so.1")
        except OSError:
            _gomp = False
    if _gomp:
        _gomp.omp_set_num_threads(int(n))
