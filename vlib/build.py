"""Build phonopy's C extension from /repo's working tree with the stand-in
nanobind header, in three variants, cached by a hash of the sources.

Also installs the third-party packages the checks need (scipy, mpmath,
atheris) from the offline wheelhouse into /verif/.deps.
"""
import fcntl
import hashlib
import os
import shutil
import subprocess
import sys
import sysconfig

VERIF = os.path.dirname(os.path.dirname(os.path.abspath(__file__)))
REPO = os.environ.get("VERIF_REPO", "/repo")
BUILD_ROOT = os.path.join(VERIF, ".build")
DEPS = os.path.join(VERIF, ".deps")
SHIM = os.path.join(VERIF, "nbshim")
WHEELS = "/opt/veriftools/wheels"
C_FILES = ["phonopy", "dynmat", "derivative_dynmat", "rgrid", "tetrahedron_method"]

VARIANTS = {
    "omp": dict(cflags=["-O2", "-fopenmp"], ldflags=["-fopenmp"]),
    "serial": dict(cflags=["-O2", "-Wno-unknown-pragmas"], ldflags=[]),
    "asan": dict(
        cflags=["-O1", "-g", "-fopenmp", "-fsanitize=address,undefined",
                "-fno-omit-frame-pointer"],
        ldflags=["-fopenmp", "-fsanitize=address,undefined"],
    ),
}


class BuildError(RuntimeError):
    pass


def _source_hash(variant):
    h = hashlib.sha256()
    h.update(variant.encode())
    h.update(repr(VARIANTS[variant]).encode())
    cdir = os.path.join(REPO, "c")
    for name in sorted(os.listdir(cdir)):
        if name.endswith((".c", ".h", ".cpp")):
            h.update(name.encode())
            with open(os.path.join(cdir, name), "rb") as f:
                h.update(f.read())
    for name in ("nanobind.h", "ndarray.h"):
        with open(os.path.join(SHIM, "nanobind", name), "rb") as f:
            h.update(f.read())
    h.update(sys.version.encode())
    return h.hexdigest()[:16]


def _run(cmd, cwd):
    p = subprocess.run(cmd, cwd=cwd, capture_output=True, text=True)
    if p.returncode != 0:
        raise BuildError("command failed: %s\n%s\n%s" % (" ".join(cmd), p.stdout, p.stderr))


def ext_suffix():
    return sysconfig.get_config_var("EXT_SUFFIX")


def ensure_ext(variant="omp"):
    """Return the directory holding _phonopy<suffix>.so for this variant."""
    os.makedirs(BUILD_ROOT, exist_ok=True)
    key = _source_hash(variant)
    out = os.path.join(BUILD_ROOT, "%s-%s" % (variant, key))
    so = os.path.join(out, "_phonopy" + ext_suffix())
    if os.path.exists(so):
        return out
    lock = open(os.path.join(BUILD_ROOT, ".lock-" + variant), "w")
    fcntl.flock(lock, fcntl.LOCK_EX)
    try:
        if os.path.exists(so):
            return out
        # remove stale builds of this variant
        for d in os.listdir(BUILD_ROOT):
            if d.startswith(variant + "-") and d != os.path.basename(out):
                shutil.rmtree(os.path.join(BUILD_ROOT, d), ignore_errors=True)
        tmp = out + ".tmp%d" % os.getpid()
        shutil.rmtree(tmp, ignore_errors=True)
        os.makedirs(tmp)
        v = VARIANTS[variant]
        cdir = os.path.join(REPO, "c")
        inc = sysconfig.get_paths()["include"]
        common = ["-fPIC", "-DTHM_EPSILON=1e-10"] + v["cflags"]
        procs = []
        for name in C_FILES:
            procs.append(subprocess.Popen(
                ["gcc"] + common + ["-c", os.path.join(cdir, name + ".c"), "-o", name + ".o"],
                cwd=tmp, stdout=subprocess.PIPE, stderr=subprocess.PIPE, text=True))
        procs.append(subprocess.Popen(
            ["g++", "-std=c++17"] + common + ["-I" + SHIM, "-I" + inc, "-I" + cdir,
                                              "-c", os.path.join(cdir, "_phonopy.cpp"), "-o", "_phonopy.o"],
            cwd=tmp, stdout=subprocess.PIPE, stderr=subprocess.PIPE, text=True))
        for p in procs:
            o, e = p.communicate()
            if p.returncode != 0:
                shutil.rmtree(tmp, ignore_errors=True)
                raise BuildError("compile failed (%s):\n%s\n%s" % (variant, o, e))
        _run(["g++", "-shared"] + v["ldflags"] + [n + ".o" for n in C_FILES] + ["_phonopy.o", "-o", "_phonopy" + ext_suffix()], tmp)
        for n in C_FILES + ["_phonopy"]:
            os.remove(os.path.join(tmp, n + ".o"))
        os.rename(tmp, out)
        return out
    finally:
        fcntl.flock(lock, fcntl.LOCK_UN)
        lock.close()


def asan_env():
    lib = subprocess.run(["gcc", "-print-file-name=libasan.so"], capture_output=True, text=True).stdout.strip()
    ubsan = subprocess.run(["gcc", "-print-file-name=libubsan.so"], capture_output=True, text=True).stdout.strip()
    return {
        "LD_PRELOAD": lib + ":" + ubsan,
        "ASAN_OPTIONS": "detect_leaks=0:abort_on_error=0:exitcode=97:allocator_may_return_null=1",
        "UBSAN_OPTIONS": "print_stacktrace=1:halt_on_error=1:exitcode=97",
    }


NEEDED = {"scipy": "scipy", "mpmath": "mpmath", "atheris": "atheris"}


def ensure_deps():
    os.makedirs(DEPS, exist_ok=True)
    missing = [pkg for mod, pkg in NEEDED.items() if not os.path.isdir(os.path.join(DEPS, mod))]
    if not missing:
        return DEPS
    lock = open(os.path.join(DEPS, ".lock"), "w")
    fcntl.flock(lock, fcntl.LOCK_EX)
    try:
        missing = [pkg for mod, pkg in NEEDED.items() if not os.path.isdir(os.path.join(DEPS, mod))]
        if missing:
            p = subprocess.run(
                [sys.executable, "-m", "pip", "install", "--no-index", "--find-links", WHEELS,
                 "--no-deps", "--target", DEPS, "--quiet", "--upgrade"] + missing,
                capture_output=True, text=True)
            if p.returncode != 0:
                raise BuildError("pip install failed: " + p.stdout + p.stderr)
    finally:
        fcntl.flock(lock, fcntl.LOCK_UN)
        lock.close()
    return DEPS


if __name__ == "__main__":
    ensure_deps()
    for v in (sys.argv[1:] or ["omp", "serial", "asan"]):
        print(v, ensure_ext(v))
