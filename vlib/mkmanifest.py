"""Regenerate MANIFEST.json from the property modules that exist.

python -m vlib.mkmanifest      (cwd /verif)
"""
import importlib
import json
import os
import sys

VERIF = os.path.dirname(os.path.dirname(os.path.abspath(__file__)))
ALL = ["C%02d" % i for i in range(1, 21)]

BASELINE_OFF = ("cd /repo && env -u PHONOPY_VERIF /venv/bin/python -m pytest -ra -q -p no:cacheprovider "
                "--timeout=900 --continue-on-collection-errors")

NOTE_COMMON = ("Generated-input search never proves absence. Trusted base: numpy/LAPACK, spglib's raw symmetry search, "
               "the stand-in nanobind header (the real binding library is not installable here), and the oracle code "
               "under /verif/oracles. ")


def main():
    sys.path.insert(0, VERIF)
    checks = []
    na = []
    for pid in ALL:
        path = os.path.join(VERIF, "props", pid.lower() + ".py")
        if not os.path.exists(path):
            na.append({"property_id": pid, "reason": "check not built yet in this round (planned in DESIGN.md section 2)"})
            continue
        with open(path) as f:
            src = f.read()
        # read metadata without importing phonopy-dependent modules
        meta = {}
        for name in ("TECHNIQUE", "LEVEL_TEXT", "LEVEL_NOTE", "DESIGN_REF"):
            meta[name] = None
        ns = {}
        try:
            mod = importlib.import_module("props." + pid.lower())
            for name in meta:
                meta[name] = getattr(mod, name, None)
        except Exception as e:  # noqa: BLE001
            print("cannot import", pid, e)
            raise
        checks.append({
            "property_id": pid,
            "quick_cmd": "./check %s --tier quick" % pid,
            "thorough_cmd": "./check %s --tier thorough" % pid,
            "evidence_file": "evidence/%s.json" % pid,
            "replay_cmd_template": "./check %s --replay {path}" % pid,
            "engine": "hypothesis-sharded",
            "level_claimed": {
                "category": "exploration",
                "text": meta["LEVEL_TEXT"] or "Property-based exploration with an explicit external oracle over generated inputs.",
                "design_ref": meta["DESIGN_REF"] or "DESIGN.md section 2, %s" % pid,
            },
            "level_note": NOTE_COMMON + (meta["LEVEL_NOTE"] or ""),
            "technique": meta["TECHNIQUE"] or "property-based testing (Hypothesis) against a reference model",
        })
    man = {
        "version": 1,
        "setup_cmd": "/venv/bin/python -m vlib.build",
        "hooks": {
            "guard": "PHONOPY_VERIF",
            "enable": "no source hooks are needed: checks import /repo's working tree via PYTHONPATH and compile /repo/c with "
                      "a stand-in nanobind header under /verif/.build (keyed by a hash of the C sources)",
            "baseline_off_cmd": BASELINE_OFF,
            "source_commits": [],
            "add_only": True,
        },
        "engines": [
            {"name": "hypothesis-sharded", "path": "vlib/runner.py",
             "serves_properties": [c["property_id"] for c in checks],
             "kind_free_text": "Hypothesis (seeded by VERIF_SEED, database off) in up to 16 worker processes, each bound "
                               "to one build of the C extension (omp / serial / asan); exhaustive enumeration for finite "
                               "sub-domains; failures are shrunk and written as JSON replay files"},
        ],
        "checks": checks,
        "not_applicable": na,
        "notes": "All checks: cwd /verif, ./check <ID> --tier quick|thorough; exit 0 held, 1 VIOLATION, 2 harness error. "
                 "known_findings.json lists recorded/fixed defects.",
    }
    with open(os.path.join(VERIF, "MANIFEST.json"), "w") as f:
        json.dump(man, f, indent=1)
    print("checks:", [c["property_id"] for c in checks])
    print("not_applicable:", [n["property_id"] for n in na])


if __name__ == "__main__":
    main()
