"""Case-level helpers shared by all property modules."""
import hashlib
import json
import os
import traceback

import numpy as np

REPO = os.environ.get("VERIF_REPO", "/repo")


class Sub:
    """One sub-check of a property.

    strategy(tier) -> hypothesis strategy of JSON-able specs, or
    enumerate(tier) -> list of specs (exhaustive finite domain), or
    custom(ctx) -> shard statistics dict (stateful machines).
    run(spec) -> Out
    """

    def __init__(self, name, run=None, strategy=None, enumerate=None, custom=None,
                 examples=None, builds=None, shards=None, budget=None, what=""):
        self.name = name
        self.run = run
        self.strategy = strategy
        self.enumerate = enumerate
        self.custom = custom
        self.examples = examples or {"quick": 200, "thorough": 4000}
        self.builds = builds or ["omp", "omp", "omp", "serial"]
        self.shards = shards or {"quick": 4, "thorough": 16}
        self.budget = budget or {"quick": 60, "thorough": 900}
        self.what = what


def Out(ok=True, nontrivial=True, classes=(), msg="", key=None, rejected=False, info=None):
    return {"ok": bool(ok), "nontrivial": bool(nontrivial), "classes": list(classes),
            "msg": str(msg), "key": key, "rejected": bool(rejected), "info": info}


def jsonable(x):
    if isinstance(x, dict):
        return {str(k): jsonable(v) for k, v in x.items()}
    if isinstance(x, (list, tuple)):
        return [jsonable(v) for v in x]
    if isinstance(x, np.ndarray):
        return jsonable(x.tolist())
    if isinstance(x, (np.integer,)):
        return int(x)
    if isinstance(x, (np.floating,)):
        return float(x)
    if isinstance(x, (np.bool_,)):
        return bool(x)
    if isinstance(x, complex):
        return [x.real, x.imag]
    return x


def spec_hash(spec):
    s = json.dumps(jsonable(spec), sort_keys=True, default=str)
    return hashlib.sha1(s.encode()).hexdigest()[:16]


def rng_from(key, stream=0):
    """Deterministic bulk-numeric generator keyed by a Hypothesis-drawn integer."""
    return np.random.Generator(np.random.Philox(key=[int(key) & 0xFFFFFFFFFFFFFFFF, int(stream)]))


def passes_through_repo(exc):
    """True if the traceback of exc has a frame inside REPO (phonopy code)."""
    tb = exc.__traceback__
    for fr in traceback.extract_tb(tb):
        if fr.filename.startswith(REPO + "/"):
            return True
    return False


def short_tb(exc, n=6):
    lines = traceback.format_exception(type(exc), exc, exc.__traceback__)
    return "".join(lines[-n:])[-1500:]


def relerr(a, b, scale=None):
    a = np.asarray(a)
    b = np.asarray(b)
    if a.shape != b.shape:
        return float("inf")
    if a.size == 0:
        return 0.0
    if scale is None:
        scale = max(np.abs(b).max(), 1e-300)
    d = np.abs(a - b).max()
    if not np.isfinite(d):
        return float("inf")
    return float(d / scale)


def match_known(spec, match):
    """Declarative predicate from known_findings.json over a case spec."""
    for k, v in match.items():
        cur = spec
        for part in k.split("."):
            if isinstance(cur, dict) and part in cur:
                cur = cur[part]
            else:
                return False
        if isinstance(v, dict):
            if "in" in v and cur not in v["in"]:
                return False
            if "ge" in v and not cur >= v["ge"]:
                return False
            if "le" in v and not cur <= v["le"]:
                return False
            if "ne" in v and cur == v["ne"]:
                return False
        elif cur != v:
            return False
    return True


LAYOUTS = ("array", "list", "fortran", "strided", "transposed", "readonly", "int_if_integral")


def present(a, how, fill=7777.0):
    """The same numbers handed over in another legitimate form: list, Fortran-ordered copy, every-second-element view of a longer array,
    transposed view of the transposed copy, read-only array, integer dtype when every entry is integral. Values are never changed."""
    a = np.array(a, dtype="double")
    if how == "list":
        return a.tolist()
    if how == "fortran":
        return np.asfortranarray(a)
    if how == "strided":
        big = np.full((2 * a.shape[0],) + a.shape[1:], fill) if a.ndim else np.full(2, fill)
        if a.ndim:
            big[::2] = a
            return big[::2]
        return a
    if how == "transposed" and a.ndim >= 2:
        return np.array(a.T, order="C").T  # logical values equal, memory order reversed
    if how == "readonly":
        b = a.copy()
        b.setflags(write=False)
        return b
    if how == "int_if_integral" and a.size and np.all(a == np.rint(a)) and np.abs(a).max() < 2 ** 31:
        return a.astype(int).tolist()
    return a
