"""Run phonopy's real command entry points with the stand-in extension importable.

usage: python -m vlib.cli_launch phonopy|phonopy-load [argv...]
"""
import sys


def main():
    from vlib import env

    env.bootstrap()
    cmd = sys.argv[1]
    sys.argv = [cmd] + sys.argv[2:]
    if cmd == "phonopy":
        from phonopy.scripts.phonopy import run
    elif cmd == "phonopy-load":
        from phonopy.scripts.phonopy_load import run
    else:
        raise SystemExit("unknown command " + cmd)
    run()


if __name__ == "__main__":
    main()
