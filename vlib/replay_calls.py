"""Replay recorded kernel calls in the extension build selected by VERIF_BUILD.

usage: python -m vlib.replay_calls <records.pkl> <out.pkl> [threads]
"""
import pickle
import sys

import numpy as np


def main():
    from vlib import env

    env.bootstrap()
    if len(sys.argv) > 3:
        env.set_threads(int(sys.argv[3]))
    import phonopy._phonopy as phonoc

    with open(sys.argv[1], "rb") as f:
        records = pickle.load(f)
    outs = []
    for rec in records:
        args = [np.array(a, copy=True) if isinstance(a, np.ndarray) else a for a in rec["args"]]
        r = getattr(phonoc, rec["name"])(*args)
        outs.append({"after": [a if isinstance(a, np.ndarray) else None for a in args], "ret": r})
    with open(sys.argv[2], "wb") as f:
        pickle.dump(outs, f)


if __name__ == "__main__":
    main()
