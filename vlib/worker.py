"""One shard of one sub-check: a single Hypothesis run (or a slice of an
exhaustive enumeration) in a fresh process bound to one extension build.

usage: python -m vlib.worker <json-args-file>
Writes a JSON statistics file; exit status 0 unless the harness itself broke.
"""
import collections
import importlib
import json
import os
import signal
import sys
import time
import zlib


def load_known(prop):
    here = os.path.dirname(os.path.dirname(os.path.abspath(__file__)))
    path = os.path.join(here, "known_findings.json")
    if not os.path.exists(path):
        return []
    with open(path) as f:
        data = json.load(f)
    return [e for e in data.get("findings", []) if e.get("property") == prop and e.get("kind") == "known"]


class Stats:
    def __init__(self):
        self.evaluations = 0
        self.nontrivial = set()
        self.classes = collections.Counter()
        self.samples = []
        self.rejected = 0
        self.excluded_known = collections.Counter()
        self.failure = None
        self.budget_hit = False
        self.harness_error = None
        self.exhaustive = False
        self.max_info = {}

    def record(self, spec, out):
        from vlib.case import spec_hash, jsonable

        info0 = out.get("info")
        self.evaluations += int(info0.get("n_cases", 1)) if isinstance(info0, dict) else 1
        for c in out["classes"]:
            self.classes[c] += 1
        if out["rejected"]:
            self.rejected += 1
            self.classes["rejected"] += 1
        if out["nontrivial"] and out["ok"]:
            if isinstance(out["key"], list):
                self.nontrivial.update(out["key"])
            else:
                self.nontrivial.add(out["key"] if out["key"] is not None else spec_hash(spec))
            k = len(self.nontrivial)
            if k in (7, 40, 120) or (k < 7 and len(self.samples) < 1):
                if k == 7:
                    self.samples = []
                self.samples.append(jsonable(spec))
        info = out.get("info")
        if isinstance(info, dict):
            for k, v in info.items():
                if isinstance(v, (int, float)) and v == v:
                    if k not in self.max_info or v > self.max_info[k]:
                        self.max_info[k] = v

    def dump(self):
        return {
            "evaluations": self.evaluations,
            "nontrivial": sorted(self.nontrivial),
            "classes": dict(self.classes),
            "samples": self.samples,
            "rejected": self.rejected,
            "excluded_known": dict(self.excluded_known),
            "failure": self.failure,
            "budget_hit": self.budget_hit,
            "harness_error": self.harness_error,
            "exhaustive": self.exhaustive,
            "max_info": self.max_info,
        }


class Violation(Exception):
    pass


class CaseTimeout(BaseException):
    pass


CASE_TIMEOUT = int(os.environ.get("VERIF_CASE_TIMEOUT", "120"))


def _on_alarm(signum, frame):
    raise CaseTimeout()


class HarnessError(Exception):
    pass


def evaluate(sub, spec, known, stats):
    """Run one case; map exceptions to violation / harness error."""
    from vlib.case import Out, match_known, passes_through_repo, short_tb

    from vlib.case import jsonable

    cur = getattr(stats, "cur_file", None)
    if cur:  # the case being evaluated survives a hard crash of this process (segfault / abort inside compiled code); see runner.run_worker
        with open(cur, "w") as tf:
            json.dump(jsonable(spec), tf)
    trace = os.environ.get("VERIF_TRACE_SPEC")
    if trace:  # debugging aid: the spec being evaluated survives a hard crash of the worker (abort / segfault in compiled code)
        with open(trace, "w") as tf:
            json.dump(jsonable(spec), tf)
    for e in known:
        m = e.get("match", {})
        if m.get("sub", sub.name) != sub.name:
            continue
        fields = m.get("fields", {})
        if fields and match_known(spec, fields):
            stats.excluded_known[e["id"]] += 1
            return Out(ok=True, nontrivial=False, classes=["excluded_known:" + e["id"]])
    try:
        signal.signal(signal.SIGALRM, _on_alarm)
        signal.alarm(CASE_TIMEOUT)
        try:
            out = sub.run(spec)
        finally:
            signal.alarm(0)
    except CaseTimeout:
        sys.stderr.write("CASE-TIMEOUT %s\n" % json.dumps(spec, default=str)[:2000])
        return Out(ok=True, nontrivial=False, classes=["case_timeout"])
    except (KeyboardInterrupt, SystemExit):
        raise
    except HarnessError:
        raise
    except BaseException as exc:  # noqa: BLE001
        if type(exc).__module__.startswith("hypothesis"):
            raise
        if passes_through_repo(exc):
            return Out(ok=False, msg="unexpected exception from phonopy: %r\n%s" % (exc, short_tb(exc)))
        raise HarnessError("exception in harness code: %r\n%s" % (exc, short_tb(exc, 12)))
    if out is None:
        out = Out(ok=True, nontrivial=False, classes=["skipped"])
    for c in out["classes"]:
        # a run function may recognise the narrow signature of a recorded known finding after the fact
        if isinstance(c, str) and c.startswith("excluded_known:"):
            if any(e["id"] == c.split(":", 1)[1] for e in known):
                stats.excluded_known[c.split(":", 1)[1]] += 1
            else:
                return Out(ok=False, msg="case matches the signature of %s, which is not listed as a known finding" % c)
    return out


def run_hypothesis(sub, args, stats):
    import hypothesis
    from hypothesis import HealthCheck, Phase, given, settings
    from vlib.case import jsonable

    tier = args["tier"]
    known = load_known(args["prop"])
    n = int(args["examples"])
    t_end = time.time() + float(args["budget"])
    shrink_cap = 150 if tier == "quick" else 800
    shrink_secs = 60 if tier == "quick" else 280
    state = {"fails": 0, "since_first": 0, "best": None, "best_out": None, "t_first": None}
    hseed = zlib.crc32(("%s/%s/%s/%d" % (args["prop"], sub.name, args["seed"], args["shard"])).encode())
    strat = sub.strategy(tier)

    @hypothesis.seed(hseed)
    @settings(max_examples=n, deadline=None, database=None, derandomize=False,
              report_multiple_bugs=False, suppress_health_check=list(HealthCheck),
              phases=[Phase.generate, Phase.shrink], print_blob=False)
    @given(strat)
    def t(spec):
        if state["best"] is None and time.time() > t_end:
            stats.budget_hit = True
            return
        if state["best"] is not None:
            state["since_first"] += 1
            over = state["since_first"] > shrink_cap or time.time() - state["t_first"] > shrink_secs
            if over and jsonable(spec) != state["best"]:
                return
        out = evaluate(sub, spec, known, stats)
        if state["best"] is None or not out["ok"]:
            pass
        if out["ok"]:
            if state["best"] is None:
                stats.record(spec, out)
            return
        if state["best"] is None:
            state["t_first"] = time.time()
        state["best"] = jsonable(spec)
        state["best_out"] = out
        raise Violation(out["msg"])

    try:
        t()
    except Violation:
        pass
    except HarnessError as e:
        stats.harness_error = str(e)
        return
    except hypothesis.errors.HypothesisException as e:
        if state["best"] is None:
            stats.harness_error = "hypothesis: %r" % (e,)
            return
    if state["best"] is not None:
        stats.failure = {"spec": state["best"], "msg": state["best_out"]["msg"],
                         "info": jsonable(state["best_out"].get("info"))}


def run_enumeration(sub, args, stats):
    from vlib.case import jsonable

    known = load_known(args["prop"])
    specs = sub.enumerate(args["tier"])
    mine = specs[args["shard"]::args["nshards"]]
    t_end = time.time() + float(args["budget"])
    stats.exhaustive = True
    for spec in mine:
        if time.time() > t_end:
            stats.budget_hit = True
            stats.exhaustive = False
            break
        try:
            out = evaluate(sub, spec, known, stats)
        except HarnessError as e:
            stats.harness_error = str(e)
            return
        if out["ok"]:
            stats.record(spec, out)
        elif stats.failure is None:
            stats.failure = {"spec": jsonable(spec), "msg": out["msg"], "info": jsonable(out.get("info"))}
            stats.evaluations += 1
            # keep going: enumeration reports the first (smallest) failure of its slice
            break


def main():
    with open(sys.argv[1]) as f:
        args = json.load(f)
    from vlib import env

    stats = Stats()
    stats.cur_file = args.get("out", "") + ".cur" if args.get("out") else None
    try:
        import faulthandler

        faulthandler.enable()
        env.bootstrap(args["build"])
        if args.get("threads"):
            env.set_threads(args["threads"])
        mod = importlib.import_module("props." + args["prop"].lower())
        sub = [s for s in mod.SUBCHECKS if s.name == args["sub"]][0]
        if hasattr(mod, "selftest") and args["shard"] == 0:
            mod.selftest()
        mode = args.get("mode", "run")
        if mode == "replay":
            from vlib.case import jsonable

            try:
                out = evaluate(sub, args["spec"], [], stats)
                stats.evaluations = 1
                if args.get("_regress") and any(str(c).startswith("discarded") for c in (out.get("classes") or [])):
                    # a regression replay must reach the code it guards: a generator change that makes its crystal undrawable is a harness error
                    raise HarnessError("regression replay %s is discarded by the generator and no longer exercises anything" % args["_regress"])
                if not out["ok"]:
                    stats.failure = {"spec": args["spec"], "msg": out["msg"], "info": jsonable(out.get("info"))}
            except HarnessError as e:
                stats.harness_error = str(e)
        elif mode == "repro":
            fn = getattr(mod, "KNOWN_REPRO", {}).get(args["finding"])
            res = stats.dump()
            res["repro_still_fails"] = bool(fn()) if fn else None
            with open(args["out"], "w") as f:
                json.dump(res, f)
            return
        elif sub.custom is not None:
            res = sub.custom(args, stats)
            if isinstance(res, dict):
                with open(args["out"], "w") as f:
                    json.dump(res, f)
                return
        elif sub.enumerate is not None:
            run_enumeration(sub, args, stats)
        else:
            run_hypothesis(sub, args, stats)
    except Exception as e:  # noqa: BLE001
        import traceback

        stats.harness_error = "worker crashed: %r\n%s" % (e, traceback.format_exc()[-2000:])
    with open(args["out"], "w") as f:
        json.dump(stats.dump(), f)


if __name__ == "__main__":
    main()
