#pragma once
#include "nanobind.h"
