// Minimal stand-in for the subset of nanobind used by c/_phonopy.cpp.
#pragma once
#define PY_SSIZE_T_CLEAN
#include <Python.h>
#include <stdint.h>
#include <stdexcept>
#include <string>
#include <tuple>
#include <utility>
#include <vector>
#include <memory>

namespace nanobind {

struct ndarray_holder {
    Py_buffer view; bool ok;
    ndarray_holder() : ok(false) {}
    ~ndarray_holder() { if (ok) PyBuffer_Release(&view); }
};

template <typename... Ts> class ndarray {
public:
    std::shared_ptr<ndarray_holder> h;
    void *data() const { return h->view.buf; }
    size_t shape(size_t i) const {
        if ((int)i >= h->view.ndim) throw std::out_of_range("ndarray::shape(): axis out of range");
        return (size_t)h->view.shape[i];
    }
    size_t ndim() const { return (size_t)h->view.ndim; }
};

namespace detail {
struct cast_error : std::runtime_error { using std::runtime_error::runtime_error; };

template <typename T> struct caster;
template <> struct caster<ndarray<>> {
    static ndarray<> from(PyObject *o) {
        ndarray<> a; a.h = std::make_shared<ndarray_holder>();
        if (PyObject_GetBuffer(o, &a.h->view, PyBUF_STRIDES | PyBUF_FORMAT | PyBUF_WRITABLE) != 0) {
            PyErr_Clear();
            if (PyObject_GetBuffer(o, &a.h->view, PyBUF_STRIDES | PyBUF_FORMAT) != 0) {
                PyErr_Clear(); throw cast_error("argument is not an ndarray");
            }
        }
        a.h->ok = true;
        return a;
    }
};
template <> struct caster<int64_t> { static int64_t from(PyObject *o) {
    if (PyFloat_Check(o)) throw cast_error("expected int");
    long long v = PyLong_AsLongLong(o); if (v == -1 && PyErr_Occurred()) { PyErr_Clear(); throw cast_error("expected int"); } return (int64_t)v; } };
template <> struct caster<int> { static int from(PyObject *o) {
    if (PyFloat_Check(o)) throw cast_error("expected int");
    long v = PyLong_AsLong(o); if (v == -1 && PyErr_Occurred()) { PyErr_Clear(); throw cast_error("expected int"); } return (int)v; } };
template <> struct caster<double> { static double from(PyObject *o) {
    double v = PyFloat_AsDouble(o); if (v == -1.0 && PyErr_Occurred()) { PyErr_Clear(); throw cast_error("expected float"); } return v; } };
template <> struct caster<const char *> { static const char *from(PyObject *o) {
    const char *s = PyUnicode_AsUTF8(o); if (!s) { PyErr_Clear(); throw cast_error("expected str"); } return s; } };

inline PyObject *to_py(bool v) { if (v) Py_RETURN_TRUE; Py_RETURN_FALSE; }
inline PyObject *to_py(double v) { return PyFloat_FromDouble(v); }
inline PyObject *to_py(int64_t v) { return PyLong_FromLongLong(v); }
inline PyObject *to_py(int v) { return PyLong_FromLong(v); }

struct func_base { virtual ~func_base() {} virtual PyObject *call(PyObject *args) = 0; std::string name; };

template <typename R, typename... A> struct func_impl : func_base {
    R (*f)(A...);
    template <size_t... I> PyObject *invoke(PyObject *args, std::index_sequence<I...>) {
        std::tuple<typename std::decay<A>::type...> t{caster<typename std::decay<A>::type>::from(PyTuple_GET_ITEM(args, I))...};
        if constexpr (std::is_void<R>::value) { f(std::get<I>(t)...); Py_RETURN_NONE; }
        else { return to_py(f(std::get<I>(t)...)); }
    }
    PyObject *call(PyObject *args) override {
        if ((size_t)PyTuple_GET_SIZE(args) != sizeof...(A)) {
            PyErr_Format(PyExc_TypeError, "%s(): incompatible function arguments (expected %d, got %d)", name.c_str(), (int)sizeof...(A), (int)PyTuple_GET_SIZE(args));
            return nullptr;
        }
        try { return invoke(args, std::index_sequence_for<A...>{}); }
        catch (cast_error &e) { PyErr_Format(PyExc_TypeError, "%s(): incompatible function arguments: %s", name.c_str(), e.what()); return nullptr; }
        catch (std::exception &e) { PyErr_SetString(PyExc_RuntimeError, e.what()); return nullptr; }
    }
};

inline PyObject *trampoline(PyObject *self, PyObject *args) {
    func_base *fb = (func_base *)PyCapsule_GetPointer(self, "nbstub");
    return fb->call(args);
}
} // namespace detail

class module_ {
public:
    PyObject *m;
    explicit module_(PyObject *mm) : m(mm) {}
    template <typename R, typename... A> module_ &def(const char *name, R (*f)(A...)) {
        auto *fi = new detail::func_impl<R, A...>(); fi->f = f; fi->name = name;
        PyMethodDef *md = new PyMethodDef{strdup(name), detail::trampoline, METH_VARARGS, nullptr};
        PyObject *cap = PyCapsule_New((void *)fi, "nbstub", nullptr);
        PyObject *fn = PyCFunction_New(md, cap);
        Py_DECREF(cap);
        PyModule_AddObject(m, name, fn);
        return *this;
    }
};
} // namespace nanobind

#define NB_MODULE(name, variable)                                              \
    static void nbstub_init_##name(nanobind::module_ &);                       \
    extern "C" __attribute__((visibility("default"))) PyObject *PyInit_##name(void) { \
        static PyModuleDef def = {PyModuleDef_HEAD_INIT, #name, nullptr, -1, nullptr, nullptr, nullptr, nullptr, nullptr}; \
        PyObject *mod = PyModule_Create(&def);                                 \
        if (!mod) return nullptr;                                              \
        nanobind::module_ mm(mod);                                             \
        nbstub_init_##name(mm);                                                \
        return mod;                                                            \
    }                                                                          \
    static void nbstub_init_##name(nanobind::module_ &variable)
