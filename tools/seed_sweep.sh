#!/bin/sh
# tools/seed_sweep.sh [seed-dir | seed-dir:CHECK ...]: run the quick check of the owning property against every seeded change; one line per seed.
# Not a registered check. Patches the repository named by VERIF_REPO (default /repo) and reverts it after each seed.
cd "$(dirname "$0")/.." || exit 2
S="$*"; [ -z "$S" ] && S=$(ls seeded)
for s in $S; do
  id=${s%-*}
  # "C09-10:C03" runs the check of C03 (a sibling property) against seed C09-10
  case "$s" in *:*) id=${s#*:}; s=${s%%:*};; esac
  p=seeded/$s/patch.diff
  [ -f seeded/$s/patch_rebased_on_fixes.diff ] && p=seeded/$s/patch_rebased_on_fixes.diff
  t0=$(date +%s)
  out=$(tools/try_patch.sh $p $id 2>&1)
  t1=$(date +%s)
  v=$(echo "$out" | grep "^violations:" | head -1)
  rc=$(echo "$out" | grep "^exit code:" | tail -1)
  sub=$(echo "$out" | grep "^---- violation in sub-check" | sed 's/.*sub-check \([a-z_0-9]*\).*/\1/' | sort -u | tr '\n' ',')
  echo "$s check=$id $v $rc subs=$sub wall=$((t1-t0))s"
done
