#!/bin/sh
# tools/verify_seed.sh <ID> <k> [<store-index>]: independently confirm a sub-agent's seeded change $SEEDSRC/<ID>-out/patch<k>.diff
#  (demo passes on a clean tree, fails with the change, 81 pinned tests still pass), then store it under /verif/seeded/<ID>-<store-index>/
#  env: SEEDSRC (default /tmp/wt2), SEEDBASE (commit the patch was made against; default: /repo HEAD)
ID="$1"; K="$2"; N="${3:-$2}"; ROOT="${SEEDSRC:-/tmp/wt2}"; SRC=$ROOT/$ID-out; WT=/tmp/vs/$ID-$K; EXT=/tmp/vs/ext-$ID-$K
BASE="${SEEDBASE:-$(git -C /repo rev-parse HEAD)}"
mkdir -p /tmp/vs; rm -rf "$WT" "$EXT"; git -C /repo worktree prune
git -C /repo worktree add -q --detach "$WT" "$BASE" || exit 2
run_demo() { (cd /tmp/vs && PHWT=$WT PHEXT=$EXT PYTHONPATH=/tmp/phtools/deps timeout 900 /venv/bin/python /tmp/phtools/withext.py $SRC/demo$K.py > /tmp/vs/demo-$ID-$K.$1.log 2>&1; echo $?); }
/tmp/phtools/build_ext.sh "$WT" "$EXT" >/dev/null 2>&1
CLEAN=$(run_demo clean)
git -C "$WT" apply "$SRC/patch$K.diff" || { echo "PATCH DOES NOT APPLY"; git -C /repo worktree remove --force "$WT"; exit 3; }
if grep -q "^diff --git a/c/" "$SRC/patch$K.diff"; then /tmp/phtools/build_ext.sh "$WT" "$EXT" >/dev/null 2>&1 || echo "EXT BUILD FAILED"; fi
MUT=$(run_demo mutant)
TESTS=$(cd "$WT" && /venv/bin/python -m pytest -q -p no:cacheprovider --timeout=900 $(cat /tmp/phtools/stable_nodeids.txt) 2>&1 | tail -1)
git -C /repo worktree remove --force "$WT"; rm -rf "$EXT"
echo "$ID-$K: demo on clean tree exit=$CLEAN, with change exit=$MUT, pinned tests: $TESTS"
tail -3 /tmp/vs/demo-$ID-$K.mutant.log
case "$TESTS" in *"81 passed"*) T_OK=1;; *) T_OK=0;; esac
if [ "$CLEAN" = 0 ] && [ "$MUT" != 0 ] && [ "$MUT" != 124 ] && [ $T_OK = 1 ]; then
  D=/verif/seeded/$ID-$N; mkdir -p $D; cp $SRC/patch$K.diff $D/patch.diff; cp $SRC/demo$K.py $D/demo.py
  echo "$BASE" > $D/base_commit.txt
  echo "CONFIRMED -> $D"
else
  echo "NOT CONFIRMED"
fi
