#!/venv/bin/python
"""tools/seed_meta.py <ID-k> <needs> <detected_by> [--note ...]: write seeded/<ID-k>/meta.json"""
import json, sys, os
sid, needs, detected = sys.argv[1:4]
note = sys.argv[4] if len(sys.argv) > 4 else ""
pid, k = sid.split("-")
d = os.path.join("/verif/seeded", sid)
meta = {
    "property": pid,
    "breaks": pid,
    "source": "independent sub-agent given only the property text and a scratch worktree (no access to /verif)",
    "needs_to_manifest": needs,
    "confirmed_by": "tools/verify_seed.sh %s %s: demo.py exits 0 on a clean worktree of the pinned commit, non-zero with patch.diff applied; "
                    "the 81 pinned tests still pass with the patch" % (pid, k),
    "checked_with": "tools/try_patch.sh seeded/%s/patch.diff %s (applies to /repo, runs the quick check, reverts)" % (sid, pid),
    "detected_by": detected,
    "note": note,
}
json.dump(meta, open(os.path.join(d, "meta.json"), "w"), indent=1)
print("wrote", d)
