#!/venv/bin/python
"""tools/seed_meta_from_sweep.py <sweep-log> [k ...]: write seeded/<ID>-<k>/meta.json for the waves whose 'needs' text was extracted from the
sub-agents' notes (tools/needs_wave5.json, tools/needs_wave6.json), with the detection result of tools/seed_sweep.sh (owner and siblings)."""
import json, os, re, sys

here = os.path.dirname(os.path.dirname(os.path.abspath(__file__)))
log = sys.argv[1]
ks = [int(x) for x in sys.argv[2:]] or [9, 10, 11, 12]
needs = {}
for fn in ("needs_wave5.json", "needs_wave6.json"):
    for k, v in json.load(open(os.path.join(here, "tools", fn))).items():
        t = " ".join(x for x in (v.get("where") or v.get("head") or "", v.get("edit") or "", v.get("breaks") or v.get("text") or "") if x)
        needs[k] = re.sub(r"\s+", " ", t)[:900]
det = {}
for line in open(log):
    m = re.match(r"(C\d\d-\d+) check=(C\d\d) violations: (\d+) exit code: (\d+) subs=(\S*) wall", line)
    if m:
        sid, chk, nv, rc, subs = m.groups()
        det.setdefault(sid, []).append((chk, int(nv), int(rc), subs.strip(",")))
for sid in sorted(os.listdir(os.path.join(here, "seeded"))):
    if not re.match(r"C\d\d-\d+$", sid) or int(sid.split("-")[1]) not in ks:
        continue
    pid, k = sid.split("-")
    d = os.path.join(here, "seeded", sid)
    need = needs.get(sid)
    if not need:
        m = re.search(r'"""(.+?)"""', open(os.path.join(d, "demo.py")).read(), re.S)
        need = re.sub(r"\s+", " ", m.group(1))[:900] if m else ""
    hits = [(c, nv, rc, subs) for c, nv, rc, subs in det.get(sid, []) if nv > 0 and rc == 1]
    if hits:
        detected = "; ".join("%s %s (quick tier, seed 1: %d violations)" % (c, subs or "", nv) for c, nv, rc, subs in hits)
    elif sid in det:
        detected = "none of the checks run against it (%s); see DESIGN.md section 9" % ", ".join(c for c, _, _, _ in det[sid])
    else:
        detected = "not swept"
    meta = {
        "property": pid, "breaks": pid,
        "source": "independent sub-agent given only the property text, a list of the earlier changes to avoid and a scratch worktree (no access to /verif)",
        "needs_to_manifest": need,
        "confirmed_by": "tools/verify_seed.sh: demo.py exits 0 on a clean worktree of the commit in base_commit.txt, non-zero with patch.diff applied; "
                        "the 81 pinned tests still pass with the patch",
        "checked_with": "tools/seed_sweep.sh %s (applies the patch to a copy of /repo, runs the quick check, reverts)" % sid,
        "detected_by": detected,
        "note": "",
    }
    json.dump(meta, open(os.path.join(d, "meta.json"), "w"), indent=1)
    print(sid, "->", detected[:100])
