#!/bin/sh
# tools/sweep.sh <tier> <seed> [ID ...]  -- run checks sequentially, one log per check under sweep-<tier>-<seed>/ (relative to cwd);
# prints one summary line per check. Not a registered check (used for multi-seed quiet runs and thorough tiers through `vp run`).
TIER="$1"; SEED="$2"; shift 2
IDS="$*"; [ -z "$IDS" ] && IDS="C01 C02 C03 C04 C05 C06 C07 C08 C09 C10 C11 C12 C13 C14 C15 C16 C17 C18 C19 C20"
D="sweep-$TIER-$SEED"; mkdir -p "$D"
for id in $IDS; do
  t0=$(date +%s)
  VERIF_SEED=$SEED ./check "$id" --tier "$TIER" --no-evidence > "$D/$id.log" 2>&1; rc=$?
  t1=$(date +%s)
  echo "$id tier=$TIER seed=$SEED rc=$rc wall=$((t1-t0))s $(grep -c '^VIOLATION' "$D/$id.log") violations $(grep -c '^KNOWN-FINDING' "$D/$id.log") known"
done
