#!/bin/sh
# tools/try_patch.sh <patch.diff> <ID> [extra ./check args]  -- apply a seeded change to /repo, run a check, revert.
P="$(realpath "$1")"; ID="$2"; shift 2
cd /verif || exit 2
git -C /repo apply "$P" 2>/dev/null || git -C /repo apply -C1 "$P" || { echo "patch does not apply"; exit 3; }
./check "$ID" --no-evidence "$@" > /tmp/try_patch.$$.log 2>&1; rc=$?
git -C /repo checkout -- . 
grep -v "^Warning\|^WARNING" /tmp/try_patch.$$.log | grep -c "^VIOLATION" | sed 's/^/violations: /'
grep -v "^Warning\|^WARNING" /tmp/try_patch.$$.log | grep -A3 "^---- violation" | head -12
tail -8 /tmp/try_patch.$$.log
rm -f /tmp/try_patch.$$.log
# replays written while the patch was applied are not kept
git -C /verif ls-files --others --exclude-standard replays | grep -v /fixed- | xargs -r rm -f
echo "exit code: $rc"
