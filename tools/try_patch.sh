#!/bin/sh
# tools/try_patch.sh <patch.diff> <ID> [extra ./check args]  -- apply a seeded change to the repository (VERIF_REPO, default /repo),
# run a check from the directory this script lives in, revert.
P="$(realpath "$1")"; ID="$2"; shift 2
R="${VERIF_REPO:-/repo}"
cd "$(dirname "$0")/.." || exit 2
git -C "$R" apply "$P" 2>/dev/null || git -C "$R" apply -C1 "$P" || { echo "patch does not apply"; exit 3; }
L=$(mktemp /var/tmp/try_patch.XXXXXX)
./check "$ID" --no-evidence "$@" > "$L" 2>&1; rc=$?
git -C "$R" checkout -- .
grep -v "^Warning\|^WARNING" "$L" | grep -c "^VIOLATION" | sed 's/^/violations: /'
grep -v "^Warning\|^WARNING" "$L" | grep -A3 "^---- violation" | head -12
tail -8 "$L"
rm -f "$L"
# replays written while the patch was applied are not kept
git ls-files --others --exclude-standard replays | grep -v /fixed- | xargs -r rm -f
echo "exit code: $rc"
