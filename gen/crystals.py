"""Crystal, supercell-matrix and q-point generators.

Everything Hypothesis draws is a small JSON-able *spec*; `build_crystal(spec)`
turns it deterministically into a PhonopyAtoms (bulk numbers come from a
Philox generator keyed by a drawn integer), so cases replay exactly and the
structure (Hall number, orbit count, supercell entries ...) shrinks.
"""
import itertools

import numpy as np
import spglib
from hypothesis import strategies as st

from vlib.case import rng_from

SPECIES = ["H", "He", "Li", "Be", "B", "C", "N", "O", "F", "Ne", "Na", "Mg", "Al", "Si", "P", "S", "Cl"]
HEAVY = ["Na", "Cl", "Si", "O", "Ti", "Zr", "Mg", "Ga", "As", "Sr"]
_hall_cache = {}


def hall_ops(hall):
    if hall not in _hall_cache:
        d = spglib.get_symmetry_from_database(hall)
        _hall_cache[hall] = (np.array(d["rotations"]), np.array(d["translations"]))
    return _hall_cache[hall]


def sym_metric(rots, rng):
    """Random lattice (rows) whose metric is invariant under the point group."""
    A = rng.normal(size=(3, 3))
    G = A @ A.T + np.eye(3)
    Gs = sum(r.T @ G @ r for r in rots) / len(rots)
    return np.linalg.cholesky(Gs)


def min_image_dist(d, L):
    d = d - np.rint(d)
    best = np.inf
    for s in itertools.product((-1, 0, 1), repeat=3):
        v = (d + np.array(s)) @ L
        best = min(best, np.linalg.norm(v))
    return best


def _min_pair_distance(pos, L):
    n = len(pos)
    if n < 2:
        # distance to own image
        return min(np.linalg.norm(np.array(s) @ L) for s in itertools.product((-1, 0, 1), repeat=3) if any(s))
    d = pos[:, None, :] - pos[None, :, :]
    d -= np.rint(d)
    best = np.inf
    for s in itertools.product((-1, 0, 1), repeat=3):
        v = (d + np.array(s)) @ L
        r = np.linalg.norm(v, axis=2)
        r[np.arange(n), np.arange(n)] = np.inf if not any(s) else r[np.arange(n), np.arange(n)]
        best = min(best, r.min())
    return best


def _orbit(x, rots, trans, L):
    orb = []
    for r, t in zip(rots, trans):
        y = (r @ x + t) % 1.0
        if not any(np.linalg.norm(((y - z + 0.5) % 1 - 0.5) @ L) < 1e-4 for z in orb):
            orb.append(y)
    return orb


def _hall_crystal(hall, key, norbits, max_unit):
    rots, trans = hall_ops(hall)
    prots = np.unique(rots, axis=0)
    for attempt in range(8):
        rng = rng_from(key, 100 + attempt)
        L = sym_metric(prots, rng)
        pos, sym = [], []
        for o in range(norbits):
            placed = False
            for coarse in range(4):
                g = [int(rng.choice([2, 3, 4, 6, 8])), 2, 2, 1][coarse]
                x = rng.integers(0, g, size=3) / g
                if coarse == 0 and rng.random() < 0.3:
                    x = rng.random(3)
                orb = _orbit(x, rots, trans, L)
                if len(pos) + len(orb) <= max_unit:
                    pos += orb
                    sym += [SPECIES[o]] * len(orb)
                    placed = True
                    break
            if not placed and not pos:
                break
        if not pos:
            continue
        pos = np.array(pos)
        vol = abs(np.linalg.det(L))
        L = L * np.cbrt(len(pos) * 14.0 / vol)
        if _min_pair_distance(pos, L) < 0.8 or _short_vector(L) < 1.6:
            continue
        return L, pos, sym
    return None


def _short_vector(L):
    from oracles.lattice import shortest_lattice_vector

    return shortest_lattice_vector(L)


PROTOS = {
    "nacl": (lambda a: (np.eye(3) * a,
                        [[0, 0, 0], [0, .5, .5], [.5, 0, .5], [.5, .5, 0], [.5, .5, .5], [.5, 0, 0], [0, .5, 0], [0, 0, .5]],
                        ["Na"] * 4 + ["Cl"] * 4, "F")),
    "si": (lambda a: (np.eye(3) * a,
                      [[0, 0, 0], [0, .5, .5], [.5, 0, .5], [.5, .5, 0], [.25, .25, .25], [.25, .75, .75], [.75, .25, .75], [.75, .75, .25]],
                      ["Si"] * 8, "F")),
    "zns": (lambda a: (np.eye(3) * a,
                       [[0, 0, 0], [0, .5, .5], [.5, 0, .5], [.5, .5, 0], [.25, .25, .25], [.25, .75, .75], [.75, .25, .75], [.75, .75, .25]],
                       ["Ga"] * 4 + ["As"] * 4, "F")),
    "cscl": (lambda a: (np.eye(3) * a * 0.75, [[0, 0, 0], [.5, .5, .5]], ["Na", "Cl"], "P")),
    "bcc": (lambda a: (np.eye(3) * a * 0.6, [[0, 0, 0], [.5, .5, .5]], ["Na", "Na"], "I")),
    "hcp": (lambda a: (np.array([[a * .6, 0, 0], [-a * .3, a * .6 * np.sqrt(3) / 2, 0], [0, 0, a * .98]]),
                       [[1 / 3, 2 / 3, .25], [2 / 3, 1 / 3, .75]], ["Mg", "Mg"], "P")),
    "wurtzite": (lambda a: (np.array([[a * .6, 0, 0], [-a * .3, a * .6 * np.sqrt(3) / 2, 0], [0, 0, a * .98]]),
                            [[1 / 3, 2 / 3, 0], [2 / 3, 1 / 3, .5], [1 / 3, 2 / 3, .375], [2 / 3, 1 / 3, .875]],
                            ["Ga", "Ga", "N", "N"], "P")),
    "rutile": (lambda a: (np.diag([a * .85, a * .85, a * .55]),
                          [[0, 0, 0], [.5, .5, .5], [.3, .3, 0], [.7, .7, 0], [.2, .8, .5], [.8, .2, .5]],
                          ["Ti", "Ti", "O", "O", "O", "O"], "P")),
    "perovskite": (lambda a: (np.eye(3) * a * .75, [[0, 0, 0], [.5, .5, .5], [.5, .5, 0], [.5, 0, .5], [0, .5, .5]],
                              ["Sr", "Ti", "O", "O", "O"], "P")),
    "bct": (lambda a: (np.diag([a * .6, a * .6, a * .9]), [[0, 0, 0], [.5, .5, .5], [0, 0, .4], [.5, .5, .9]],
                       ["Na", "Na", "Cl", "Cl"], "I")),
    "cbase": (lambda a: (np.diag([a * .7, a * .9, a * .8]), [[0, 0, 0], [.5, .5, 0], [0, 0.3, .5], [.5, .8, .5]],
                         ["Na", "Na", "Cl", "Cl"], "C")),
    "abase": (lambda a: (np.diag([a * .7, a * .9, a * .8]), [[0, 0, 0], [0, .5, .5], [.5, .1, 0.2], [.5, .6, .7]],
                         ["Na", "Na", "Cl", "Cl"], "A")),
    "rhomb": (lambda a: (np.array([[a * .7, 0, 0], [-a * .35, a * .7 * np.sqrt(3) / 2, 0], [0, 0, a * 1.3]]),
                         [[0, 0, 0], [2 / 3, 1 / 3, 1 / 3], [1 / 3, 2 / 3, 2 / 3], [0, 0, .5], [2 / 3, 1 / 3, 5 / 6], [1 / 3, 2 / 3, 1 / 6]],
                         ["Na"] * 3 + ["Cl"] * 3, "R")),
}

CENTRING_VECS = {
    "P": [[0, 0, 0]],
    "F": [[0, 0, 0], [0, .5, .5], [.5, 0, .5], [.5, .5, 0]],
    "I": [[0, 0, 0], [.5, .5, .5]],
    "A": [[0, 0, 0], [0, .5, .5]],
    "C": [[0, 0, 0], [.5, .5, 0]],
    "R": [[0, 0, 0], [2 / 3, 1 / 3, 1 / 3], [1 / 3, 2 / 3, 2 / 3]],
}


def _centred_motif(centring, key, nmotif):
    """P1 motif replicated by centring vectors on a lattice compatible with the centring."""
    for attempt in range(8):
        rng = rng_from(key, 200 + attempt)
        if centring == "R":
            a = 3.0 + 2 * rng.random()
            c = 4.0 + 4 * rng.random()
            L = np.array([[a, 0, 0], [-a / 2, a * np.sqrt(3) / 2, 0], [0, 0, c]])
        else:
            A = rng.normal(size=(3, 3)) * 0.35
            L = (np.eye(3) + A) * (3.5 + 2 * rng.random())
            if abs(np.linalg.det(L)) < 20:
                continue
        motif = rng.random((nmotif, 3))
        pos, sym = [], []
        for m in range(nmotif):
            for v in CENTRING_VECS[centring]:
                pos.append((motif[m] + np.array(v)) % 1.0)
                sym.append(SPECIES[m % 3 + 2])
        pos = np.array(pos)
        L = L * np.cbrt(len(pos) * 14.0 / abs(np.linalg.det(L)))
        if _min_pair_distance(pos, L) < 0.8 or _short_vector(L) < 1.6:
            continue
        return L, pos, sym
    return None


def _p1(key, natom, nspecies):
    for attempt in range(8):
        rng = rng_from(key, 300 + attempt)
        A = rng.normal(size=(3, 3)) * 0.4
        L = (np.eye(3) + A)
        if abs(np.linalg.det(L)) < 0.3:
            continue
        pos = rng.random((natom, 3))
        L = L * np.cbrt(natom * 14.0 / abs(np.linalg.det(L)))
        if _min_pair_distance(pos, L) < 0.8 or _short_vector(L) < 1.6:
            continue
        sym = [SPECIES[i % nspecies + 4] for i in range(natom)]
        return L, pos, sym
    return None


def build_crystal(spec):
    """spec -> dict(cell=PhonopyAtoms, centring=letter|None) or None (overlap: discard)."""
    from phonopy.structure.atoms import PhonopyAtoms

    kind = spec["kind"]
    centring = None
    if kind == "hall":
        r = _hall_crystal(spec["hall"], spec["key"], spec.get("norbits", 1), spec.get("max_unit", 12))
    elif kind == "proto":
        rng = rng_from(spec["key"], 400)
        a = 4.0 + 2.5 * rng.random()
        L, pos, sym, centring = PROTOS[spec["name"]](a)
        r = (np.array(L, dtype=float), np.array(pos, dtype=float), list(sym))
    elif kind == "centred":
        centring = spec["centring"]
        r = _centred_motif(centring, spec["key"], spec.get("nmotif", 1))
    elif kind == "p1":
        centring = "P"
        r = _p1(spec["key"], spec["natom"], spec.get("nspecies", 2))
    else:
        raise ValueError(kind)
    if r is None:
        return None
    L, pos, sym = r
    # basis vectors at less than 35 degrees (or more than 145) to each other are discarded: for such unreduced bases spglib 2.7's
    # relocate_BZ_grid_address (used by every phonopy mesh) writes past its own (mesh+1)^3 buffer - heap corruption inside the
    # dependency, observed under valgrind (see DESIGN.md 8.2). Skewed bases are exercised where no mesh is involved (C05 'direct').
    Ln = np.array(L, dtype=float) / np.linalg.norm(L, axis=1)[:, None]
    if max(abs(float(Ln[0] @ Ln[1])), abs(float(Ln[0] @ Ln[2])), abs(float(Ln[1] @ Ln[2]))) > np.cos(np.radians(35.0)):
        return None
    if spec.get("axperm"):
        # relabel the axes cyclically: the same crystal in a non-standard setting (e.g. tetragonal with the 4-fold axis along a)
        ap = [[0, 1, 2], [1, 2, 0], [2, 0, 1]][int(spec["axperm"]) % 3]
        L = L[ap]
        pos = pos[:, ap]
    if spec.get("perm"):
        rng = rng_from(spec["key"], 500)
        p = rng.permutation(len(sym))
        pos = pos[p]
        sym = [sym[i] for i in p]
    if spec.get("rot"):
        # rigid rotation of the whole crystal (lattice not lower-triangular)
        rng = rng_from(spec["key"], 501)
        Q, _ = np.linalg.qr(rng.normal(size=(3, 3)))
        if np.linalg.det(Q) < 0:
            Q[:, 0] *= -1
        L = L @ Q.T
    if spec.get("noise"):
        # sub-tolerance positional noise (relaxed structures, 1/3 typed as 0.3333333): |noise| << symprec
        rng = rng_from(spec["key"], 503)
        pos = pos + rng.uniform(-1, 1, size=pos.shape) * float(spec["noise"])
    masses = None
    if spec.get("masses"):
        rng = rng_from(spec["key"], 502)
        uniq = sorted(set(sym))
        mm = {s: float(1 + 199 * rng.random()) for s in uniq}
        masses = [mm[s] for s in sym]
    cell = PhonopyAtoms(symbols=sym, cell=L, scaled_positions=pos, masses=masses)
    return {"cell": cell, "centring": centring}


# ---------------------------------------------------------------- strategies

keys = st.integers(0, 2**32 - 1)


@st.composite
def crystal_specs(draw, max_unit=12, kinds=("hall", "proto", "centred", "p1"), masses=True, rot=True, noise=False,
                  axperm=False):
    kind = draw(st.sampled_from(kinds))
    spec = {"kind": kind, "key": draw(keys)}
    if kind == "hall":
        spec["hall"] = draw(st.integers(1, 530))
        spec["norbits"] = draw(st.integers(1, 3))
        spec["max_unit"] = max_unit
    elif kind == "proto":
        spec["name"] = draw(st.sampled_from(sorted(PROTOS)))
    elif kind == "centred":
        spec["centring"] = draw(st.sampled_from(["F", "I", "A", "C", "R", "P"]))
        spec["nmotif"] = draw(st.integers(1, 2))
    else:
        spec["natom"] = draw(st.integers(1, 5))
        spec["nspecies"] = draw(st.integers(1, 3))
    spec["perm"] = draw(st.booleans())
    if rot:
        spec["rot"] = draw(st.booleans())
    if masses:
        spec["masses"] = draw(st.booleans())
    if noise:
        spec["noise"] = draw(st.sampled_from([0.0, 0.0, 1e-8, 2e-7]))
    if axperm:
        spec["axperm"] = draw(st.sampled_from([0, 0, 1, 2]))
    return spec


def det3(m):
    m = np.array(m, dtype=np.int64)
    return int(round(np.linalg.det(m)))


@st.composite
def supercell_matrices(draw, max_det=8, maxent=2, allow_nondiag=True):
    """Integer 3x3 matrices with 1 <= det <= max_det (construction: HNF x unimodular, or filtered small entries)."""
    mode = draw(st.sampled_from(["diag", "hnf", "small"] if allow_nondiag else ["diag"]))
    if mode == "diag":
        d = [1, 1, 1]
        for i in range(3):
            room = max_det // (d[0] * d[1] * d[2])
            d[i] = draw(st.integers(1, max(1, min(room, 4))))
        return [[d[0], 0, 0], [0, d[1], 0], [0, 0, d[2]]]
    if mode == "hnf":
        a = draw(st.integers(1, max_det))
        b = draw(st.integers(1, max(1, max_det // a)))
        c = draw(st.integers(1, max(1, max_det // (a * b))))
        H = np.array([[a, draw(st.integers(0, b - 1)) if b > 1 else 0, draw(st.integers(0, c - 1)) if c > 1 else 0],
                      [0, b, draw(st.integers(0, c - 1)) if c > 1 else 0], [0, 0, c]], dtype=np.int64)
        U = np.eye(3, dtype=np.int64)
        for _ in range(draw(st.integers(0, 3))):
            i, j = draw(st.sampled_from([(0, 1), (0, 2), (1, 0), (1, 2), (2, 0), (2, 1)]))
            E = np.eye(3, dtype=np.int64)
            E[i, j] = draw(st.sampled_from([-1, 1]))
            U = U @ E
        if draw(st.booleans()):
            M = U @ H
        else:
            M = H @ U
        return M.tolist()
    m = draw(st.lists(st.integers(-maxent, maxent), min_size=9, max_size=9).filter(
        lambda v: 1 <= det3(np.array(v).reshape(3, 3)) <= max_det))
    return np.array(m).reshape(3, 3).tolist()


@st.composite
def crystal_with_supercell(draw, max_atoms=48, max_unit=12, max_det=8, kinds=("hall", "proto", "centred", "p1"),
                           masses=True, allow_nondiag=True, noise=False):
    cs = draw(crystal_specs(max_unit=max_unit, kinds=kinds, masses=masses, noise=noise))
    c = build_crystal(cs)
    n = len(c["cell"]) if c is not None else 1
    room = max(1, min(max_det, max_atoms // n))
    S = draw(supercell_matrices(max_det=room, allow_nondiag=allow_nondiag))
    return {"crystal": cs, "smat": S}


def centring_matrix(letter):
    from phonopy.structure.cells import get_primitive_matrix_by_centring

    return get_primitive_matrix_by_centring(letter)


def qpoint_strategy():
    frac = st.sampled_from([0.0, 0.5, -0.5, 1 / 3, -1 / 3, 0.25, 1.0, -1.0, 2 / 3])
    rnd = st.floats(-1.5, 1.5, allow_nan=False, width=64)
    return st.one_of(st.lists(rnd, min_size=3, max_size=3), st.lists(frac, min_size=3, max_size=3),
                     st.lists(st.one_of(rnd, frac), min_size=3, max_size=3))
