"""Complete calculator input files generated from a cell, so that phonopy's own READER supplies the auxiliary
`optional_structure_info` the writers need (never hand-built tuples), plus the documented re-attachment of headers."""
import os

import numpy as np

REPO = os.environ.get("VERIF_REPO", "/repo")
Z = {"H": 1, "He": 2, "Li": 3, "Be": 4, "B": 5, "C": 6, "N": 7, "O": 8, "F": 9, "Ne": 10, "Na": 11, "Mg": 12, "Al": 13, "Si": 14, "P": 15, "S": 16,
     "Cl": 17, "Ti": 22, "Fe": 26, "Ga": 31, "As": 33, "Sr": 38, "Zr": 40}


def uniq(symbols):
    out = []
    for s in symbols:
        if s not in out:
            out.append(s)
    return out


def qe_template(cell):
    us = uniq(cell.symbols)
    m = {s: cell.masses[list(cell.symbols).index(s)] for s in us}
    lines = [" &control", "    calculation = 'scf'", " /", " &system", "    ibrav = 0", "    nat = %d" % len(cell), "    ntyp = %d" % len(us),
             "    ecutwfc = 50.0", " /", " &electrons", " /", "ATOMIC_SPECIES"]
    for s in us:
        lines.append(" %s  %.8f %s.UPF" % (s, m[s], s))
    lines.append("ATOMIC_POSITIONS crystal")
    for s, p in zip(cell.symbols, cell.scaled_positions):
        lines.append(" %s  %.16f  %.16f  %.16f" % (s, p[0], p[1], p[2]))
    lines.append("CELL_PARAMETERS bohr")
    for v in cell.cell:
        lines.append(" %.16f  %.16f  %.16f" % tuple(v))
    lines += ["K_POINTS automatic", " 2 2 2  0 0 0"]  # after CELL_PARAMETERS, which reads exactly nine numbers
    return "\n".join(lines) + "\n"


def qe_header(text_from_writer, nat, ntyp):
    """What the documented workflow adds around phonopy's QE output (namelists and K_POINTS card). The K_POINTS card is placed
    BEFORE the structure cards: phonopy's reader appends the tokens of unknown cards to the preceding card, so a card after
    ATOMIC_POSITIONS would be rejected as 'incompatible with nat' (a limitation on user files, not part of this property)."""
    return " &control\n    calculation = 'scf'\n /\n &system\n    ibrav = 0\n    nat = %d\n    ntyp = %d\n    ecutwfc = 50.0\n /\n &electrons\n /\n" \
           "K_POINTS automatic\n 2 2 2  0 0 0\n" % (nat, ntyp) + text_from_writer + "\n"


def elk_template(cell, scale=None):
    """scale: None, a number (keyword 'scale') or three numbers (keywords 'scale1..3'): the lattice vectors are written divided by them, so
    that the file describes the same crystal."""
    us = uniq(cell.symbols)
    lines = []
    sc = [1.0, 1.0, 1.0]
    if scale is not None:
        if np.ndim(scale) == 0:
            sc = [float(scale)] * 3
            lines += ["scale", "  %.16f" % scale, ""]
        else:
            sc = [float(x) for x in scale]
            for k in range(3):
                lines += ["scale%d" % (k + 1), "  %.16f" % sc[k], ""]
    lines.append("avec")
    for k, v in enumerate(cell.cell):
        lines.append("  %.16f %.16f %.16f" % tuple(np.asarray(v) / sc[k]))
    lines += ["atoms", "  %d" % len(us)]
    for s in us:
        idx = [i for i, x in enumerate(cell.symbols) if x == s]
        lines.append("  '%s.in'" % s)
        lines.append("  %d" % len(idx))
        for i in idx:
            lines.append("  %.16f %.16f %.16f  0.0 0.0 0.0" % tuple(cell.scaled_positions[i]))
    lines += ["", "ngridk", "  2 2 2", ""]
    return "\n".join(lines) + "\n"


def siesta_template(cell):
    us = uniq(cell.symbols)
    lines = ["SystemName x", "SystemLabel x", "NumberOfSpecies %d" % len(us), "NumberOfAtoms %d" % len(cell), "%block ChemicalSpeciesLabel"]
    for k, s in enumerate(us):
        lines.append(" %d  %d  %s" % (k + 1, Z.get(s, 1), s))
    lines += ["%endblock ChemicalSpeciesLabel", "LatticeConstant 1.0 Bohr", "%block LatticeVectors"]
    for v in cell.cell:
        lines.append(" %.16f %.16f %.16f" % tuple(v))
    lines += ["%endblock LatticeVectors", "AtomicCoordinatesFormat  Fractional", "%block AtomicCoordinatesAndAtomicSpecies"]
    for s, p in zip(cell.symbols, cell.scaled_positions):
        lines.append(" %.16f %.16f %.16f %d" % (p[0], p[1], p[2], us.index(s) + 1))
    lines += ["%endblock AtomicCoordinatesAndAtomicSpecies", ""]
    return "\n".join(lines) + "\n"


def siesta_header(text_from_writer, cell):
    us = uniq(cell.symbols)
    head = ["SystemName x", "SystemLabel x", "NumberOfSpecies %d" % len(us), "%block ChemicalSpeciesLabel"]
    for k, s in enumerate(us):
        head.append(" %d  %d  %s" % (k + 1, Z.get(s, 1), s))
    head.append("%endblock ChemicalSpeciesLabel")
    return "\n".join(head) + "\n" + text_from_writer


def abacus_template(cell):
    us = uniq(cell.symbols)
    m = {s: cell.masses[list(cell.symbols).index(s)] for s in us}
    lines = ["ATOMIC_SPECIES"]
    for s in us:
        lines.append("%s  %.8f %s_ONCV_PBE-1.0.upf" % (s, m[s], s))
    lines += ["", "NUMERICAL_ORBITAL"]
    for s in us:
        lines.append("%s_gga_8au_100Ry_2s2p1d.orb" % s)
    lines += ["", "LATTICE_CONSTANT", "1.0", "", "LATTICE_VECTORS"]
    for v in cell.cell:
        lines.append("%.16f    %.16f    %.16f" % tuple(v))
    lines += ["", "ATOMIC_POSITIONS", "Direct"]
    for s in us:
        idx = [i for i, x in enumerate(cell.symbols) if x == s]
        lines += [s, "0.0", "%d" % len(idx)]
        for i in idx:
            lines.append("%.16f  %.16f  %.16f" % tuple(cell.scaled_positions[i]))
        lines.append("")
    return "\n".join(lines) + "\n"


SAMPLES = {
    "wien2k": [REPO + "/test/interface/BaGa2.struct", REPO + "/example/NaCl-wien2k/NaCl.struct"],
    "fleur": [REPO + "/example/Al-Fleur/fleur_inpgen"],
    "crystal": [REPO + "/test/interface/Si-CRYSTAL.o", REPO + "/example/NaCl-CRYSTAL/crystal.o"],
    "castep": [REPO + "/test/interface/NaCl-castep.cell"],
    "abinit": [REPO + "/test/interface/NaCl-abinit.in"],
    "pwmat": [REPO + "/test/interface/Si-pwmat.config"],
    "abacus": [REPO + "/test/interface/NaCl-abacus.stru"],
    "qe": [REPO + "/test/interface/NaCl-pwscf.in", REPO + "/test/interface/NaCl-pwscf-angstrom.in"],
}
TEMPLATES = {"qe": qe_template, "elk": elk_template, "siesta": siesta_template, "abacus": abacus_template}
